/-
  Functions that never register or remove a connection leave the four
  connection/socket tables alone. (Same proofs as Proofs/NodeCrash.lean, for
  four other fields.)
-/
import DV.Proofs.NodeCrash
namespace DV.Node
set_option linter.unusedSimpArgs false

/-! ### `connections` -/

@[simp] theorem connections_emit (s : St) (o : Out) : (s.emit o).connections = s.connections := rfl

@[simp] theorem connections_modConn (s : St) (i : Nat) (f : Conn → Conn) : (s.modConn i f).connections = s.connections := rfl

@[simp] theorem connections_modPeer (s : St) (i : Nat) (f : Peer → Peer) : (s.modPeer i f).connections = s.connections := rfl

@[simp] theorem connections_modApp (s : St) (i : Nat) (f : App → App) : (s.modApp i f).connections = s.connections := rfl

@[simp] theorem connections_modTApp (s : St) (i : Nat) (f : TApp → TApp) : (s.modTApp i f).connections = s.connections := rfl

@[simp] theorem connections_demand (s : St) (c : Nat) : (demandAttention s c).connections = s.connections := rfl


@[simp] theorem connections_connClose (s : St) (cid : Nat) (b : Bool) : (connClose s cid b).connections = s.connections := by
  unfold connClose; split <;> rfl


@[simp] theorem connections_flagReady (s : St) (cid : Nat) : (flagConnectionAsReady s cid).connections = s.connections := rfl


@[simp] theorem connections_recordAnswerState (s : St) (cid : Nat) (m : AMsg) :
    (recordAnswerState s cid m).connections = s.connections := by
  unfold recordAnswerState
  repeat (first | rfl | split | dsimp only)


@[simp] theorem connections_sendMessage (s : St) (cid : Nat) (m : AMsg) (b : Bool) :
    (sendMessage s cid m b).1.connections = s.connections := by
  unfold sendMessage
  repeat (first | rfl | split | dsimp only | simp only [connections_recordAnswerState, connections_modConn])


theorem connections_foldl {α : Type} (f : St → α → St) (h : ∀ s a, (f s a).connections = s.connections) (l : List α) (s : St) :
    (l.foldl f s).connections = s.connections := by
  induction l generalizing s with
  | nil => rfl
  | cons a l ih => simp only [List.foldl_cons, ih, h]


@[simp] theorem connections_receiveDpr (s : St) (cid : Nat) (m : AMsg) (info : MsgInfo) :
    (receiveDpr s cid m info).1.connections = s.connections := by
  unfold receiveDpr
  repeat (first | rfl | split | dsimp only | simp only [connections_sendMessage, connections_modConn, connections_modPeer])


@[simp] theorem connections_receiveDpa (s : St) (cid : Nat) : (receiveDpa s cid).connections = s.connections := rfl

@[simp] theorem connections_receiveDwa (s : St) (cid : Nat) : (receiveDwa s cid).connections = s.connections := rfl


@[simp] theorem connections_receiveDwr (s : St) (cid : Nat) (m : AMsg) (info : MsgInfo) :
    (receiveDwr s cid m info).1.connections = s.connections := by
  unfold receiveDwr
  simp only [connections_sendMessage]


@[simp] theorem connections_appReceiveRequest (s : St) (ai : Nat) (m : AMsg) : (appReceiveRequest s ai m).1.connections = s.connections := by
  unfold appReceiveRequest
  repeat (first | rfl | split | dsimp only)


@[simp] theorem connections_receiveAppRequest (s : St) (cid : Nat) (m : AMsg) (info : MsgInfo) :
    (receiveAppRequest s cid m info).1.connections = s.connections := by
  unfold receiveAppRequest
  repeat (first | rfl | split | dsimp only | simp only [connections_sendMessage, connections_appReceiveRequest])


@[simp] theorem connections_appReceiveAnswer (s : St) (ai : Nat) (m : AMsg) : (appReceiveAnswer s ai m).connections = s.connections := by
  unfold appReceiveAnswer
  repeat (first | rfl | split)


@[simp] theorem connections_receiveAppAnswer (s : St) (m : AMsg) : (receiveAppAnswer s m).connections = s.connections := by
  unfold receiveAppAnswer
  repeat (first | rfl | split | simp only [connections_appReceiveAnswer])


@[simp] theorem connections_recordOrigin (s : St) (cid : Nat) (m : AMsg) (info : MsgInfo) :
    (recordOrigin s cid m info).connections = s.connections := by
  unfold recordOrigin
  split <;> rfl


theorem connections_pumpWriter (s : St) (cid : Nat) : (pumpWriter s cid).connections = s.connections := by
  unfold pumpWriter
  repeat (first | rfl | split | (rw [connections_foldl]; intro s a; rfl))


@[simp] theorem connections_sendCer (s : St) (cid : Nat) : (sendCer s cid).connections = s.connections := by
  unfold sendCer
  repeat (first | rfl | split | dsimp only | simp only [connections_sendMessage, connections_modConn])


@[simp] theorem connections_sendDwr (s : St) (cid : Nat) : (sendDwr s cid).connections = s.connections := by
  unfold sendDwr
  repeat (first | rfl | split | dsimp only | simp only [connections_sendMessage, connections_modConn])


@[simp] theorem connections_sendDpr (s : St) (cid : Nat) : (sendDpr s cid).connections = s.connections := by
  unfold sendDpr
  repeat (first | rfl | split | dsimp only | simp only [connections_sendMessage, connections_modConn])


theorem connections_routeAnswer (s s' : St) (m : AMsg) (cid : Nat) (h : routeAnswer s m = .ok (s', cid)) :
    s'.connections = s.connections := by
  unfold routeAnswer at h
  split at h
  · contradiction
  · dsimp only at h
    split at h
    · contradiction
    · split at h
      · injection h with h; injection h with h1 h2; subst h1; rfl
      · contradiction


@[simp] theorem connections_routeAnswerSideEffect (s : St) (m : AMsg) : (routeAnswerSideEffect s m).connections = s.connections := by
  unfold routeAnswerSideEffect
  split <;> rfl


@[simp] theorem connections_sendBuiltAnswer (s : St) (a : AMsg) (t : Bool) : (sendBuiltAnswer s a t).1.connections = s.connections := by
  unfold sendBuiltAnswer
  split
  · simp
  · rename_i h
    simp only [connections_sendMessage, connections_routeAnswer _ _ _ _ h]


@[simp] theorem connections_appRespNones (ai : Nat) (s : St) : (appRespNones ai s).connections = s.connections := by
  unfold appRespNones
  repeat (first | rfl | split)


@[simp] theorem connections_runHandler (infoOf : AMsg → MsgInfo) (s : St) (k : Nat) : (runHandler infoOf s k).connections = s.connections := by
  unfold runHandler
  repeat (first | rfl | split | dsimp only)


@[simp] theorem connections_appSendAnswer (s : St) (ai : Nat) (req : AMsg) (info : MsgInfo) (rc : Nat) :
    (appSendAnswer s ai req info rc).connections = s.connections := by
  unfold appSendAnswer
  dsimp only
  split
  · simp
  · rename_i h
    split <;> simp only [connections_emit, connections_sendMessage, connections_routeAnswer _ _ _ _ h]


theorem connections_routeRequest (s s' : St) (ai : Nat) (m m' : AMsg) (info : MsgInfo) (cid : Nat)
    (h : routeRequest s ai m info = .ok (s', cid, m')) : s'.connections = s.connections := by
  unfold routeRequest at h
  simp only [] at h
  repeat (first | contradiction | split at h)
  all_goals (injection h with h; injection h with h1 h2; subst h1; repeat (first | rfl | split))


@[simp] theorem connections_appSendRequestBegin (s : St) (ai : Nat) (m : AMsg) (info : MsgInfo) :
    (appSendRequestBegin s ai m info).1.connections = s.connections := by
  unfold appSendRequestBegin
  dsimp only
  split
  · split <;> rfl
  · rename_i h
    simp only [connections_sendMessage, connections_modApp, connections_routeRequest _ _ _ _ _ _ _ h]
    split <;> rfl


@[simp] theorem connections_appSendRequestEnd (s : St) (ai : Nat) (hbh : Nat) : (appSendRequestEnd s ai hbh).1.connections = s.connections := rfl


@[simp] theorem connections_stopBegin (s : St) (f : Bool) : (stopBegin s f).connections = s.connections := by
  unfold stopBegin
  dsimp only
  split
  · rfl
  · rw [connections_foldl]
    intro s a
    repeat (first | rfl | split | simp only [connections_sendDpr])

/-! ### `peerSockets` -/

@[simp] theorem peerSockets_emit (s : St) (o : Out) : (s.emit o).peerSockets = s.peerSockets := rfl

@[simp] theorem peerSockets_modConn (s : St) (i : Nat) (f : Conn → Conn) : (s.modConn i f).peerSockets = s.peerSockets := rfl

@[simp] theorem peerSockets_modPeer (s : St) (i : Nat) (f : Peer → Peer) : (s.modPeer i f).peerSockets = s.peerSockets := rfl

@[simp] theorem peerSockets_modApp (s : St) (i : Nat) (f : App → App) : (s.modApp i f).peerSockets = s.peerSockets := rfl

@[simp] theorem peerSockets_modTApp (s : St) (i : Nat) (f : TApp → TApp) : (s.modTApp i f).peerSockets = s.peerSockets := rfl

@[simp] theorem peerSockets_demand (s : St) (c : Nat) : (demandAttention s c).peerSockets = s.peerSockets := rfl


@[simp] theorem peerSockets_connClose (s : St) (cid : Nat) (b : Bool) : (connClose s cid b).peerSockets = s.peerSockets := by
  unfold connClose; split <;> rfl


@[simp] theorem peerSockets_flagReady (s : St) (cid : Nat) : (flagConnectionAsReady s cid).peerSockets = s.peerSockets := rfl


@[simp] theorem peerSockets_recordAnswerState (s : St) (cid : Nat) (m : AMsg) :
    (recordAnswerState s cid m).peerSockets = s.peerSockets := by
  unfold recordAnswerState
  repeat (first | rfl | split | dsimp only)


@[simp] theorem peerSockets_sendMessage (s : St) (cid : Nat) (m : AMsg) (b : Bool) :
    (sendMessage s cid m b).1.peerSockets = s.peerSockets := by
  unfold sendMessage
  repeat (first | rfl | split | dsimp only | simp only [peerSockets_recordAnswerState, peerSockets_modConn])


theorem peerSockets_foldl {α : Type} (f : St → α → St) (h : ∀ s a, (f s a).peerSockets = s.peerSockets) (l : List α) (s : St) :
    (l.foldl f s).peerSockets = s.peerSockets := by
  induction l generalizing s with
  | nil => rfl
  | cons a l ih => simp only [List.foldl_cons, ih, h]


@[simp] theorem peerSockets_receiveDpr (s : St) (cid : Nat) (m : AMsg) (info : MsgInfo) :
    (receiveDpr s cid m info).1.peerSockets = s.peerSockets := by
  unfold receiveDpr
  repeat (first | rfl | split | dsimp only | simp only [peerSockets_sendMessage, peerSockets_modConn, peerSockets_modPeer])


@[simp] theorem peerSockets_receiveDpa (s : St) (cid : Nat) : (receiveDpa s cid).peerSockets = s.peerSockets := rfl

@[simp] theorem peerSockets_receiveDwa (s : St) (cid : Nat) : (receiveDwa s cid).peerSockets = s.peerSockets := rfl


@[simp] theorem peerSockets_receiveDwr (s : St) (cid : Nat) (m : AMsg) (info : MsgInfo) :
    (receiveDwr s cid m info).1.peerSockets = s.peerSockets := by
  unfold receiveDwr
  simp only [peerSockets_sendMessage]


@[simp] theorem peerSockets_appReceiveRequest (s : St) (ai : Nat) (m : AMsg) : (appReceiveRequest s ai m).1.peerSockets = s.peerSockets := by
  unfold appReceiveRequest
  repeat (first | rfl | split | dsimp only)


@[simp] theorem peerSockets_receiveAppRequest (s : St) (cid : Nat) (m : AMsg) (info : MsgInfo) :
    (receiveAppRequest s cid m info).1.peerSockets = s.peerSockets := by
  unfold receiveAppRequest
  repeat (first | rfl | split | dsimp only | simp only [peerSockets_sendMessage, peerSockets_appReceiveRequest])


@[simp] theorem peerSockets_appReceiveAnswer (s : St) (ai : Nat) (m : AMsg) : (appReceiveAnswer s ai m).peerSockets = s.peerSockets := by
  unfold appReceiveAnswer
  repeat (first | rfl | split)


@[simp] theorem peerSockets_receiveAppAnswer (s : St) (m : AMsg) : (receiveAppAnswer s m).peerSockets = s.peerSockets := by
  unfold receiveAppAnswer
  repeat (first | rfl | split | simp only [peerSockets_appReceiveAnswer])


@[simp] theorem peerSockets_recordOrigin (s : St) (cid : Nat) (m : AMsg) (info : MsgInfo) :
    (recordOrigin s cid m info).peerSockets = s.peerSockets := by
  unfold recordOrigin
  split <;> rfl


theorem peerSockets_pumpWriter (s : St) (cid : Nat) : (pumpWriter s cid).peerSockets = s.peerSockets := by
  unfold pumpWriter
  repeat (first | rfl | split | (rw [peerSockets_foldl]; intro s a; rfl))


@[simp] theorem peerSockets_sendCer (s : St) (cid : Nat) : (sendCer s cid).peerSockets = s.peerSockets := by
  unfold sendCer
  repeat (first | rfl | split | dsimp only | simp only [peerSockets_sendMessage, peerSockets_modConn])


@[simp] theorem peerSockets_sendDwr (s : St) (cid : Nat) : (sendDwr s cid).peerSockets = s.peerSockets := by
  unfold sendDwr
  repeat (first | rfl | split | dsimp only | simp only [peerSockets_sendMessage, peerSockets_modConn])


@[simp] theorem peerSockets_sendDpr (s : St) (cid : Nat) : (sendDpr s cid).peerSockets = s.peerSockets := by
  unfold sendDpr
  repeat (first | rfl | split | dsimp only | simp only [peerSockets_sendMessage, peerSockets_modConn])


theorem peerSockets_routeAnswer (s s' : St) (m : AMsg) (cid : Nat) (h : routeAnswer s m = .ok (s', cid)) :
    s'.peerSockets = s.peerSockets := by
  unfold routeAnswer at h
  split at h
  · contradiction
  · dsimp only at h
    split at h
    · contradiction
    · split at h
      · injection h with h; injection h with h1 h2; subst h1; rfl
      · contradiction


@[simp] theorem peerSockets_routeAnswerSideEffect (s : St) (m : AMsg) : (routeAnswerSideEffect s m).peerSockets = s.peerSockets := by
  unfold routeAnswerSideEffect
  split <;> rfl


@[simp] theorem peerSockets_sendBuiltAnswer (s : St) (a : AMsg) (t : Bool) : (sendBuiltAnswer s a t).1.peerSockets = s.peerSockets := by
  unfold sendBuiltAnswer
  split
  · simp
  · rename_i h
    simp only [peerSockets_sendMessage, peerSockets_routeAnswer _ _ _ _ h]


@[simp] theorem peerSockets_appRespNones (ai : Nat) (s : St) : (appRespNones ai s).peerSockets = s.peerSockets := by
  unfold appRespNones
  repeat (first | rfl | split)


@[simp] theorem peerSockets_runHandler (infoOf : AMsg → MsgInfo) (s : St) (k : Nat) : (runHandler infoOf s k).peerSockets = s.peerSockets := by
  unfold runHandler
  repeat (first | rfl | split | dsimp only)


@[simp] theorem peerSockets_appSendAnswer (s : St) (ai : Nat) (req : AMsg) (info : MsgInfo) (rc : Nat) :
    (appSendAnswer s ai req info rc).peerSockets = s.peerSockets := by
  unfold appSendAnswer
  dsimp only
  split
  · simp
  · rename_i h
    split <;> simp only [peerSockets_emit, peerSockets_sendMessage, peerSockets_routeAnswer _ _ _ _ h]


theorem peerSockets_routeRequest (s s' : St) (ai : Nat) (m m' : AMsg) (info : MsgInfo) (cid : Nat)
    (h : routeRequest s ai m info = .ok (s', cid, m')) : s'.peerSockets = s.peerSockets := by
  unfold routeRequest at h
  simp only [] at h
  repeat (first | contradiction | split at h)
  all_goals (injection h with h; injection h with h1 h2; subst h1; repeat (first | rfl | split))


@[simp] theorem peerSockets_appSendRequestBegin (s : St) (ai : Nat) (m : AMsg) (info : MsgInfo) :
    (appSendRequestBegin s ai m info).1.peerSockets = s.peerSockets := by
  unfold appSendRequestBegin
  dsimp only
  split
  · split <;> rfl
  · rename_i h
    simp only [peerSockets_sendMessage, peerSockets_modApp, peerSockets_routeRequest _ _ _ _ _ _ _ h]
    split <;> rfl


@[simp] theorem peerSockets_appSendRequestEnd (s : St) (ai : Nat) (hbh : Nat) : (appSendRequestEnd s ai hbh).1.peerSockets = s.peerSockets := rfl


@[simp] theorem peerSockets_stopBegin (s : St) (f : Bool) : (stopBegin s f).peerSockets = s.peerSockets := by
  unfold stopBegin
  dsimp only
  split
  · rfl
  · rw [peerSockets_foldl]
    intro s a
    repeat (first | rfl | split | simp only [peerSockets_sendDpr])

/-! ### `halfReady` -/

@[simp] theorem halfReady_emit (s : St) (o : Out) : (s.emit o).halfReady = s.halfReady := rfl

@[simp] theorem halfReady_modConn (s : St) (i : Nat) (f : Conn → Conn) : (s.modConn i f).halfReady = s.halfReady := rfl

@[simp] theorem halfReady_modPeer (s : St) (i : Nat) (f : Peer → Peer) : (s.modPeer i f).halfReady = s.halfReady := rfl

@[simp] theorem halfReady_modApp (s : St) (i : Nat) (f : App → App) : (s.modApp i f).halfReady = s.halfReady := rfl

@[simp] theorem halfReady_modTApp (s : St) (i : Nat) (f : TApp → TApp) : (s.modTApp i f).halfReady = s.halfReady := rfl

@[simp] theorem halfReady_demand (s : St) (c : Nat) : (demandAttention s c).halfReady = s.halfReady := rfl


@[simp] theorem halfReady_connClose (s : St) (cid : Nat) (b : Bool) : (connClose s cid b).halfReady = s.halfReady := by
  unfold connClose; split <;> rfl


@[simp] theorem halfReady_flagReady (s : St) (cid : Nat) : (flagConnectionAsReady s cid).halfReady = s.halfReady := rfl


@[simp] theorem halfReady_recordAnswerState (s : St) (cid : Nat) (m : AMsg) :
    (recordAnswerState s cid m).halfReady = s.halfReady := by
  unfold recordAnswerState
  repeat (first | rfl | split | dsimp only)


@[simp] theorem halfReady_sendMessage (s : St) (cid : Nat) (m : AMsg) (b : Bool) :
    (sendMessage s cid m b).1.halfReady = s.halfReady := by
  unfold sendMessage
  repeat (first | rfl | split | dsimp only | simp only [halfReady_recordAnswerState, halfReady_modConn])


theorem halfReady_foldl {α : Type} (f : St → α → St) (h : ∀ s a, (f s a).halfReady = s.halfReady) (l : List α) (s : St) :
    (l.foldl f s).halfReady = s.halfReady := by
  induction l generalizing s with
  | nil => rfl
  | cons a l ih => simp only [List.foldl_cons, ih, h]


@[simp] theorem halfReady_receiveDpr (s : St) (cid : Nat) (m : AMsg) (info : MsgInfo) :
    (receiveDpr s cid m info).1.halfReady = s.halfReady := by
  unfold receiveDpr
  repeat (first | rfl | split | dsimp only | simp only [halfReady_sendMessage, halfReady_modConn, halfReady_modPeer])


@[simp] theorem halfReady_receiveDpa (s : St) (cid : Nat) : (receiveDpa s cid).halfReady = s.halfReady := rfl

@[simp] theorem halfReady_receiveDwa (s : St) (cid : Nat) : (receiveDwa s cid).halfReady = s.halfReady := rfl


@[simp] theorem halfReady_receiveDwr (s : St) (cid : Nat) (m : AMsg) (info : MsgInfo) :
    (receiveDwr s cid m info).1.halfReady = s.halfReady := by
  unfold receiveDwr
  simp only [halfReady_sendMessage]


@[simp] theorem halfReady_appReceiveRequest (s : St) (ai : Nat) (m : AMsg) : (appReceiveRequest s ai m).1.halfReady = s.halfReady := by
  unfold appReceiveRequest
  repeat (first | rfl | split | dsimp only)


@[simp] theorem halfReady_receiveAppRequest (s : St) (cid : Nat) (m : AMsg) (info : MsgInfo) :
    (receiveAppRequest s cid m info).1.halfReady = s.halfReady := by
  unfold receiveAppRequest
  repeat (first | rfl | split | dsimp only | simp only [halfReady_sendMessage, halfReady_appReceiveRequest])


@[simp] theorem halfReady_appReceiveAnswer (s : St) (ai : Nat) (m : AMsg) : (appReceiveAnswer s ai m).halfReady = s.halfReady := by
  unfold appReceiveAnswer
  repeat (first | rfl | split)


@[simp] theorem halfReady_receiveAppAnswer (s : St) (m : AMsg) : (receiveAppAnswer s m).halfReady = s.halfReady := by
  unfold receiveAppAnswer
  repeat (first | rfl | split | simp only [halfReady_appReceiveAnswer])


@[simp] theorem halfReady_recordOrigin (s : St) (cid : Nat) (m : AMsg) (info : MsgInfo) :
    (recordOrigin s cid m info).halfReady = s.halfReady := by
  unfold recordOrigin
  split <;> rfl


theorem halfReady_pumpWriter (s : St) (cid : Nat) : (pumpWriter s cid).halfReady = s.halfReady := by
  unfold pumpWriter
  repeat (first | rfl | split | (rw [halfReady_foldl]; intro s a; rfl))


@[simp] theorem halfReady_sendCer (s : St) (cid : Nat) : (sendCer s cid).halfReady = s.halfReady := by
  unfold sendCer
  repeat (first | rfl | split | dsimp only | simp only [halfReady_sendMessage, halfReady_modConn])


@[simp] theorem halfReady_sendDwr (s : St) (cid : Nat) : (sendDwr s cid).halfReady = s.halfReady := by
  unfold sendDwr
  repeat (first | rfl | split | dsimp only | simp only [halfReady_sendMessage, halfReady_modConn])


@[simp] theorem halfReady_sendDpr (s : St) (cid : Nat) : (sendDpr s cid).halfReady = s.halfReady := by
  unfold sendDpr
  repeat (first | rfl | split | dsimp only | simp only [halfReady_sendMessage, halfReady_modConn])


theorem halfReady_routeAnswer (s s' : St) (m : AMsg) (cid : Nat) (h : routeAnswer s m = .ok (s', cid)) :
    s'.halfReady = s.halfReady := by
  unfold routeAnswer at h
  split at h
  · contradiction
  · dsimp only at h
    split at h
    · contradiction
    · split at h
      · injection h with h; injection h with h1 h2; subst h1; rfl
      · contradiction


@[simp] theorem halfReady_routeAnswerSideEffect (s : St) (m : AMsg) : (routeAnswerSideEffect s m).halfReady = s.halfReady := by
  unfold routeAnswerSideEffect
  split <;> rfl


@[simp] theorem halfReady_sendBuiltAnswer (s : St) (a : AMsg) (t : Bool) : (sendBuiltAnswer s a t).1.halfReady = s.halfReady := by
  unfold sendBuiltAnswer
  split
  · simp
  · rename_i h
    simp only [halfReady_sendMessage, halfReady_routeAnswer _ _ _ _ h]


@[simp] theorem halfReady_appRespNones (ai : Nat) (s : St) : (appRespNones ai s).halfReady = s.halfReady := by
  unfold appRespNones
  repeat (first | rfl | split)


@[simp] theorem halfReady_runHandler (infoOf : AMsg → MsgInfo) (s : St) (k : Nat) : (runHandler infoOf s k).halfReady = s.halfReady := by
  unfold runHandler
  repeat (first | rfl | split | dsimp only)


@[simp] theorem halfReady_appSendAnswer (s : St) (ai : Nat) (req : AMsg) (info : MsgInfo) (rc : Nat) :
    (appSendAnswer s ai req info rc).halfReady = s.halfReady := by
  unfold appSendAnswer
  dsimp only
  split
  · simp
  · rename_i h
    split <;> simp only [halfReady_emit, halfReady_sendMessage, halfReady_routeAnswer _ _ _ _ h]


theorem halfReady_routeRequest (s s' : St) (ai : Nat) (m m' : AMsg) (info : MsgInfo) (cid : Nat)
    (h : routeRequest s ai m info = .ok (s', cid, m')) : s'.halfReady = s.halfReady := by
  unfold routeRequest at h
  simp only [] at h
  repeat (first | contradiction | split at h)
  all_goals (injection h with h; injection h with h1 h2; subst h1; repeat (first | rfl | split))


@[simp] theorem halfReady_appSendRequestBegin (s : St) (ai : Nat) (m : AMsg) (info : MsgInfo) :
    (appSendRequestBegin s ai m info).1.halfReady = s.halfReady := by
  unfold appSendRequestBegin
  dsimp only
  split
  · split <;> rfl
  · rename_i h
    simp only [halfReady_sendMessage, halfReady_modApp, halfReady_routeRequest _ _ _ _ _ _ _ h]
    split <;> rfl


@[simp] theorem halfReady_appSendRequestEnd (s : St) (ai : Nat) (hbh : Nat) : (appSendRequestEnd s ai hbh).1.halfReady = s.halfReady := rfl


@[simp] theorem halfReady_stopBegin (s : St) (f : Bool) : (stopBegin s f).halfReady = s.halfReady := by
  unfold stopBegin
  dsimp only
  split
  · rfl
  · rw [halfReady_foldl]
    intro s a
    repeat (first | rfl | split | simp only [halfReady_sendDpr])

/-! ### `socketPeers` -/

@[simp] theorem socketPeers_emit (s : St) (o : Out) : (s.emit o).socketPeers = s.socketPeers := rfl

@[simp] theorem socketPeers_modConn (s : St) (i : Nat) (f : Conn → Conn) : (s.modConn i f).socketPeers = s.socketPeers := rfl

@[simp] theorem socketPeers_modPeer (s : St) (i : Nat) (f : Peer → Peer) : (s.modPeer i f).socketPeers = s.socketPeers := rfl

@[simp] theorem socketPeers_modApp (s : St) (i : Nat) (f : App → App) : (s.modApp i f).socketPeers = s.socketPeers := rfl

@[simp] theorem socketPeers_modTApp (s : St) (i : Nat) (f : TApp → TApp) : (s.modTApp i f).socketPeers = s.socketPeers := rfl

@[simp] theorem socketPeers_demand (s : St) (c : Nat) : (demandAttention s c).socketPeers = s.socketPeers := rfl


@[simp] theorem socketPeers_connClose (s : St) (cid : Nat) (b : Bool) : (connClose s cid b).socketPeers = s.socketPeers := by
  unfold connClose; split <;> rfl


@[simp] theorem socketPeers_flagReady (s : St) (cid : Nat) : (flagConnectionAsReady s cid).socketPeers = s.socketPeers := rfl


@[simp] theorem socketPeers_recordAnswerState (s : St) (cid : Nat) (m : AMsg) :
    (recordAnswerState s cid m).socketPeers = s.socketPeers := by
  unfold recordAnswerState
  repeat (first | rfl | split | dsimp only)


@[simp] theorem socketPeers_sendMessage (s : St) (cid : Nat) (m : AMsg) (b : Bool) :
    (sendMessage s cid m b).1.socketPeers = s.socketPeers := by
  unfold sendMessage
  repeat (first | rfl | split | dsimp only | simp only [socketPeers_recordAnswerState, socketPeers_modConn])


theorem socketPeers_foldl {α : Type} (f : St → α → St) (h : ∀ s a, (f s a).socketPeers = s.socketPeers) (l : List α) (s : St) :
    (l.foldl f s).socketPeers = s.socketPeers := by
  induction l generalizing s with
  | nil => rfl
  | cons a l ih => simp only [List.foldl_cons, ih, h]


@[simp] theorem socketPeers_receiveDpr (s : St) (cid : Nat) (m : AMsg) (info : MsgInfo) :
    (receiveDpr s cid m info).1.socketPeers = s.socketPeers := by
  unfold receiveDpr
  repeat (first | rfl | split | dsimp only | simp only [socketPeers_sendMessage, socketPeers_modConn, socketPeers_modPeer])


@[simp] theorem socketPeers_receiveDpa (s : St) (cid : Nat) : (receiveDpa s cid).socketPeers = s.socketPeers := rfl

@[simp] theorem socketPeers_receiveDwa (s : St) (cid : Nat) : (receiveDwa s cid).socketPeers = s.socketPeers := rfl


@[simp] theorem socketPeers_receiveDwr (s : St) (cid : Nat) (m : AMsg) (info : MsgInfo) :
    (receiveDwr s cid m info).1.socketPeers = s.socketPeers := by
  unfold receiveDwr
  simp only [socketPeers_sendMessage]


@[simp] theorem socketPeers_appReceiveRequest (s : St) (ai : Nat) (m : AMsg) : (appReceiveRequest s ai m).1.socketPeers = s.socketPeers := by
  unfold appReceiveRequest
  repeat (first | rfl | split | dsimp only)


@[simp] theorem socketPeers_receiveAppRequest (s : St) (cid : Nat) (m : AMsg) (info : MsgInfo) :
    (receiveAppRequest s cid m info).1.socketPeers = s.socketPeers := by
  unfold receiveAppRequest
  repeat (first | rfl | split | dsimp only | simp only [socketPeers_sendMessage, socketPeers_appReceiveRequest])


@[simp] theorem socketPeers_appReceiveAnswer (s : St) (ai : Nat) (m : AMsg) : (appReceiveAnswer s ai m).socketPeers = s.socketPeers := by
  unfold appReceiveAnswer
  repeat (first | rfl | split)


@[simp] theorem socketPeers_receiveAppAnswer (s : St) (m : AMsg) : (receiveAppAnswer s m).socketPeers = s.socketPeers := by
  unfold receiveAppAnswer
  repeat (first | rfl | split | simp only [socketPeers_appReceiveAnswer])


@[simp] theorem socketPeers_recordOrigin (s : St) (cid : Nat) (m : AMsg) (info : MsgInfo) :
    (recordOrigin s cid m info).socketPeers = s.socketPeers := by
  unfold recordOrigin
  split <;> rfl


theorem socketPeers_pumpWriter (s : St) (cid : Nat) : (pumpWriter s cid).socketPeers = s.socketPeers := by
  unfold pumpWriter
  repeat (first | rfl | split | (rw [socketPeers_foldl]; intro s a; rfl))


@[simp] theorem socketPeers_sendCer (s : St) (cid : Nat) : (sendCer s cid).socketPeers = s.socketPeers := by
  unfold sendCer
  repeat (first | rfl | split | dsimp only | simp only [socketPeers_sendMessage, socketPeers_modConn])


@[simp] theorem socketPeers_sendDwr (s : St) (cid : Nat) : (sendDwr s cid).socketPeers = s.socketPeers := by
  unfold sendDwr
  repeat (first | rfl | split | dsimp only | simp only [socketPeers_sendMessage, socketPeers_modConn])


@[simp] theorem socketPeers_sendDpr (s : St) (cid : Nat) : (sendDpr s cid).socketPeers = s.socketPeers := by
  unfold sendDpr
  repeat (first | rfl | split | dsimp only | simp only [socketPeers_sendMessage, socketPeers_modConn])


theorem socketPeers_routeAnswer (s s' : St) (m : AMsg) (cid : Nat) (h : routeAnswer s m = .ok (s', cid)) :
    s'.socketPeers = s.socketPeers := by
  unfold routeAnswer at h
  split at h
  · contradiction
  · dsimp only at h
    split at h
    · contradiction
    · split at h
      · injection h with h; injection h with h1 h2; subst h1; rfl
      · contradiction


@[simp] theorem socketPeers_routeAnswerSideEffect (s : St) (m : AMsg) : (routeAnswerSideEffect s m).socketPeers = s.socketPeers := by
  unfold routeAnswerSideEffect
  split <;> rfl


@[simp] theorem socketPeers_sendBuiltAnswer (s : St) (a : AMsg) (t : Bool) : (sendBuiltAnswer s a t).1.socketPeers = s.socketPeers := by
  unfold sendBuiltAnswer
  split
  · simp
  · rename_i h
    simp only [socketPeers_sendMessage, socketPeers_routeAnswer _ _ _ _ h]


@[simp] theorem socketPeers_appRespNones (ai : Nat) (s : St) : (appRespNones ai s).socketPeers = s.socketPeers := by
  unfold appRespNones
  repeat (first | rfl | split)


@[simp] theorem socketPeers_runHandler (infoOf : AMsg → MsgInfo) (s : St) (k : Nat) : (runHandler infoOf s k).socketPeers = s.socketPeers := by
  unfold runHandler
  repeat (first | rfl | split | dsimp only)


@[simp] theorem socketPeers_appSendAnswer (s : St) (ai : Nat) (req : AMsg) (info : MsgInfo) (rc : Nat) :
    (appSendAnswer s ai req info rc).socketPeers = s.socketPeers := by
  unfold appSendAnswer
  dsimp only
  split
  · simp
  · rename_i h
    split <;> simp only [socketPeers_emit, socketPeers_sendMessage, socketPeers_routeAnswer _ _ _ _ h]


theorem socketPeers_routeRequest (s s' : St) (ai : Nat) (m m' : AMsg) (info : MsgInfo) (cid : Nat)
    (h : routeRequest s ai m info = .ok (s', cid, m')) : s'.socketPeers = s.socketPeers := by
  unfold routeRequest at h
  simp only [] at h
  repeat (first | contradiction | split at h)
  all_goals (injection h with h; injection h with h1 h2; subst h1; repeat (first | rfl | split))


@[simp] theorem socketPeers_appSendRequestBegin (s : St) (ai : Nat) (m : AMsg) (info : MsgInfo) :
    (appSendRequestBegin s ai m info).1.socketPeers = s.socketPeers := by
  unfold appSendRequestBegin
  dsimp only
  split
  · split <;> rfl
  · rename_i h
    simp only [socketPeers_sendMessage, socketPeers_modApp, socketPeers_routeRequest _ _ _ _ _ _ _ h]
    split <;> rfl


@[simp] theorem socketPeers_appSendRequestEnd (s : St) (ai : Nat) (hbh : Nat) : (appSendRequestEnd s ai hbh).1.socketPeers = s.socketPeers := rfl


@[simp] theorem socketPeers_stopBegin (s : St) (f : Bool) : (stopBegin s f).socketPeers = s.socketPeers := by
  unfold stopBegin
  dsimp only
  split
  · rfl
  · rw [socketPeers_foldl]
    intro s a
    repeat (first | rfl | split | simp only [socketPeers_sendDpr])

end DV.Node
