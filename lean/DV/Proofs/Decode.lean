import DV.Model.Decode
namespace DV

/-- A class that forces the command code is only chosen for its own code. -/
def forcedCodeOK (mcs : List MsgClass) (reg : List (Nat × Nat)) (undef : Nat) : Bool :=
  (match findMsgClass mcs undef with
   | some u => !u.forcesCode
   | none => false) &&
  reg.all fun p =>
    (match findMsgClass mcs p.2 with
     | some c => c.code == p.1
     | none => false) &&
    [true, false].all fun r =>
      match findMsgClass mcs (dispatch mcs reg undef p.1 r) with
      | some c => c.code == p.1
      | none => false

theorem lookupCommand_mem (reg : List (Nat × Nat)) (code cid : Nat)
    (h : lookupCommand reg code = some cid) : (code, cid) ∈ reg := by
  unfold lookupCommand at h
  cases hf : reg.find? (fun p => p.1 == code) with
  | none => simp [hf] at h
  | some p =>
    simp only [hf, Option.map_some, Option.some.injEq] at h
    have hm := List.mem_of_find?_eq_some hf
    have hp := List.find?_some hf
    simp only [beq_iff_eq] at hp
    obtain ⟨a, b⟩ := p
    simp only at hp h
    subst hp; subst h
    exact hm

theorem Decoded.header_construct (env : Env) (cls : Nat) (h : Header) (avps : List Avp) (fuel : Nat)
    (d : Decoded) (hc : construct env cls h avps fuel = .ok d) :
    ∃ mc, findMsgClass env.msgClasses cls = some mc ∧ d.header = decodedHeader mc h := by
  unfold construct at hc
  cases hm : findMsgClass env.msgClasses cls with
  | none => simp [hm] at hc
  | some mc =>
    refine ⟨mc, rfl, ?_⟩
    simp only [hm] at hc
    split at hc
    · split at hc
      · simp at hc
      · simp only [Except.ok.injEq] at hc; subst hc; rfl
    · split at hc
      · split at hc
        · split at hc
          · split at hc
            · simp at hc
            · simp only [Except.ok.injEq] at hc; subst hc; rfl
          · simp only [Except.ok.injEq] at hc; subst hc; rfl
        · simp only [Except.ok.injEq] at hc; subst hc; rfl
      · simp only [Except.ok.injEq] at hc; subst hc; rfl

end DV
