/-
  The invariant behind the whole-history theorems of C07 / C09
  (Properties/C07Hist.lean): relative to a log `L` of (connection, hop-by-hop
  id) pairs — the requests the peers' sockets have delivered so far —

  * every pair in `_peer_waiting_answer` is in the log,
  * every request waiting in a reader's queue is in the log,
  * every request still in a socket's inbox is in the log.

  `_receive_app_request` is the only place where a pending pair appears, and it
  does so for the message the reader is processing, on the connection it was
  read from; everything else only shrinks the views (Proofs/NodeSound.lean).
-/
import DV.Proofs.NodeSound
import DV.Model.NodeOps
namespace DV.Node

/-- pending pairs and queued requests are in the log -/
def Snd (L : List (Nat × Nat)) (s : St) : Prop :=
  (∀ x ∈ s.pwm, x ∈ L) ∧ (∀ x ∈ s.inqm, x.2.isRequest = true → (x.1, x.2.hbh) ∈ L)

theorem Snd_of_le {L : List (Nat × Nat)} {s' s : St} (h : s' ≼ s) (hs : Snd L s) : Snd L s' :=
  ⟨fun x hx => hs.1 x (h.1 x hx), fun x hx hr => hs.2 x (h.2 x hx) hr⟩

theorem Snd_mono {L L' : List (Nat × Nat)} {s : St} (hL : ∀ x ∈ L, x ∈ L') (hs : Snd L s) : Snd L' s :=
  ⟨fun x hx => hL x (hs.1 x hx), fun x hx hr => hL _ (hs.2 x hx hr)⟩

/-- `s.conn? cid = some c`: `c` is one of the connection objects and carries that id -/
theorem conn?_some {s : St} {cid : Nat} {c : Conn} (h : s.conn? cid = some c) : c ∈ s.conns ∧ c.id = cid := by
  unfold St.conn? at h
  refine ⟨List.mem_of_find?_eq_some h, ?_⟩
  have := List.find?_some h
  simpa using this

/-! ### the one place where a pending pair appears -/

theorem Snd_receiveAppRequest (L : List (Nat × Nat)) (s : St) (cid : Nat) (m : AMsg) (info : MsgInfo)
    (hs : Snd L s) (hm : (cid, m.hbh) ∈ L) : Snd L (receiveAppRequest s cid m info).1 := by
  unfold receiveAppRequest
  split
  · exact hs
  · dsimp only
    split
    · exact Snd_of_le (le_sendMessage _ _ _ _ (Le.refl _)) hs
    · split
      · exact hs
      · split
        · exact Snd_of_le (le_sendMessage _ _ _ _ (Le.refl _)) hs
        · split
          · -- delivered to an application: the pair (cid, m.hbh) is recorded
            refine Snd_of_le (le_appReceiveRequest _ _ _ (Le.refl _)) ?_
            split
            · refine ⟨?_, hs.2⟩
              intro x hx
              rw [mem_pwm] at hx
              obtain ⟨p, hp, h1, h2⟩ := hx
              simp only [List.mem_map] at hp
              obtain ⟨q, hq, rfl⟩ := hp
              by_cases hk : (q.1 == cid) = true
              · simp only [hk, if_true] at h1 h2
                have hqc : q.1 = cid := by simpa using hk
                by_cases hc : q.2.contains m.hbh = true
                · simp only [hc, if_true] at h2
                  exact hs.1 x (mem_pwm.mpr ⟨q, hq, h1, h2⟩)
                · simp only [hc, if_false, Bool.false_eq_true] at h2
                  rcases List.mem_append.mp h2 with h2 | h2
                  · exact hs.1 x (mem_pwm.mpr ⟨q, hq, h1, h2⟩)
                  · have : x = (cid, m.hbh) := by
                      have e2 : x.2 = m.hbh := by simpa using h2
                      cases x; simp_all
                    rw [this]; exact hm
              · simp only [hk, if_false, Bool.false_eq_true] at h1 h2
                exact hs.1 x (mem_pwm.mpr ⟨q, hq, h1, h2⟩)
            · refine ⟨?_, hs.2⟩
              intro x hx
              rw [mem_pwm] at hx
              obtain ⟨p, hp, h1, h2⟩ := hx
              rcases List.mem_append.mp hp with hp | hp
              · exact hs.1 x (mem_pwm.mpr ⟨p, hp, h1, h2⟩)
              · have hp' : p = (cid, [m.hbh]) := by simpa using hp
                subst hp'
                have : x = (cid, m.hbh) := by
                  have e2 : x.2 = m.hbh := by simpa using h2
                  cases x; simp_all
                rw [this]; exact hm
          · exact Snd_of_le (le_sendMessage _ _ _ _ (Le.refl _)) hs

theorem Snd_handleByCommand (L : List (Nat × Nat)) (s : St) (cid : Nat) (m : AMsg) (info : MsgInfo)
    (hs : Snd L s) (hm : m.isRequest = true → (cid, m.hbh) ∈ L) : Snd L (handleByCommand s cid m info).1 := by
  unfold handleByCommand
  dsimp only
  have h0 : Snd L (if m.isRequest = true then
      match (s.conn? cid).bind (findConnectionPeer s) with
      | some pi => s.modPeer pi fun p => { p with requests := p.requests + 1 }
      | none => s
    else s) := by
    repeat (first | exact hs | split)
  generalize (if m.isRequest = true then
      match (s.conn? cid).bind (findConnectionPeer s) with
      | some pi => s.modPeer pi fun p => { p with requests := p.requests + 1 }
      | none => s
    else s) = s1 at h0
  split
  · split
    · exact Snd_of_le (le_receiveCer _ _ _ _ (Le.refl _)) h0
    · exact Snd_of_le (le_receiveCea _ _ _ (Le.refl _)) h0
  · split
    · split
      · exact Snd_of_le (le_receiveDwr _ _ _ _ (Le.refl _)) h0
      · exact Snd_of_le (le_receiveDwa _ _ (Le.refl _)) h0
    · split
      · split
        · exact Snd_of_le (le_receiveDpr _ _ _ _ (Le.refl _)) h0
        · exact Snd_of_le (le_receiveDpa _ _ (Le.refl _)) h0
      · split
        · rename_i hr
          exact Snd_receiveAppRequest L s1 cid m info h0 (hm hr)
        · exact Snd_of_le (le_receiveAppAnswer _ _ (Le.refl _)) h0

theorem Snd_receiveMessage (L : List (Nat × Nat)) (s : St) (cid : Nat) (m : AMsg) (info : MsgInfo)
    (hs : Snd L s) (hm : m.isRequest = true → (cid, m.hbh) ∈ L) : Snd L (receiveMessage s cid m info) := by
  unfold receiveMessage
  dsimp only
  have h1 : Snd L (recordOrigin s cid m info) := Snd_of_le (le_recordOrigin _ _ _ _ (Le.refl _)) hs
  have hb := Snd_handleByCommand L (recordOrigin s cid m info) cid m info h1 hm
  split
  · exact Snd_of_le (le_crashReader _ _ _ (Le.refl _)) h1
  · split
    · split
      · exact Snd_of_le (le_sendMessage _ _ _ _ (Le.refl _)) h1
      · exact Snd_of_le (le_crashReader _ _ _ (le_sendMessage _ _ _ _ (Le.refl _))) h1
    · split
      · split
        · exact Snd_of_le (le_sendMessage _ _ _ _ (Le.refl _)) h1
        · exact Snd_of_le (le_crashReader _ _ _ (le_sendMessage _ _ _ _ (Le.refl _))) h1
      · split
        · rename_i s' heq
          rw [heq] at hb; exact hb
        · rename_i s' e heq
          rw [heq] at hb
          split
          · exact hb
          · split
            · exact Snd_of_le (le_sendMessage _ _ _ _ (Le.refl _)) hb
            · exact Snd_of_le (le_crashReader _ _ _ (le_sendMessage _ _ _ _ (Le.refl _))) hb

theorem Snd_dispatchMessage (L : List (Nat × Nat)) (s : St) (cid : Nat) (m : AMsg) (info : MsgInfo)
    (hs : Snd L s) (hm : m.isRequest = true → (cid, m.hbh) ∈ L) : Snd L (dispatchMessage s cid m info) := by
  unfold dispatchMessage
  repeat (first | exact hs | exact Snd_receiveMessage L s cid m info hs hm | split)

/-- The reader takes one chunk off its queue and processes it: the requests in
    the chunk were in the queue, hence in the log. -/
theorem Snd_pumpReader (infoOf : AMsg → MsgInfo) (L : List (Nat × Nat)) (s : St) (cid : Nat) (hs : Snd L s) :
    Snd L (pumpReader infoOf s cid) := by
  unfold pumpReader
  split
  · exact hs
  · rename_i c hc
    obtain ⟨hcm, hcid⟩ := conn?_some hc
    split
    · exact hs
    · split
      · exact hs
      · rename_i chunk rest hq
        dsimp only
        have hch : ∀ m ∈ chunk, m.isRequest = true → (cid, m.hbh) ∈ L := by
          intro m hm hr
          exact hs.2 (cid, m) (mem_inqm.mpr ⟨c, hcm, hcid, chunk, by rw [hq]; simp, hm⟩) hr
        have h1 : Snd L (s.modConn cid fun c => { c with inQ := rest, lastRead := s.now }) := by
          refine ⟨hs.1, ?_⟩
          intro x hx hr
          rw [mem_inqm] at hx
          obtain ⟨c', hc', hid, ch, hch', hm⟩ := hx
          simp only [St.modConn, List.mem_map] at hc'
          obtain ⟨c0, hc0, rfl⟩ := hc'
          split at hid
          · rename_i hk
            split at hch'
            · dsimp only at hid hch'
              have : x.1 = cid := by rw [← hid]; simpa using hk
              refine hs.2 x (mem_inqm.mpr ⟨c, hcm, by rw [hcid, this], ch, ?_, hm⟩) hr
              rw [hq]; exact List.mem_cons_of_mem _ hch'
            · exact absurd hk (by assumption)
          · split at hch'
            · rename_i h1 h2; exact absurd h2 h1
            · exact hs.2 x (mem_inqm.mpr ⟨c0, hc0, hid, ch, hch', hm⟩) hr
        generalize (s.modConn cid fun c => { c with inQ := rest, lastRead := s.now }) = s1 at h1
        clear hq
        induction chunk generalizing s1 with
        | nil => exact h1
        | cons m ms ih =>
          simp only [List.foldl_cons]
          apply ih
          · intro m' hm'; exact hch m' (List.mem_cons_of_mem _ hm')
          · have hmm := hch m (List.mem_cons_self ..)
            repeat (first | exact h1 | exact Snd_dispatchMessage L s1 cid m (infoOf m) h1 hmm | split)

theorem Snd_foldl {α : Type} (L : List (Nat × Nat)) (f : St → α → St) (hf : ∀ s a, Snd L s → Snd L (f s a)) (l : List α)
    (s : St) (h : Snd L s) : Snd L (l.foldl f s) := by
  induction l generalizing s with
  | nil => exact h
  | cons a l ih => exact ih _ (hf s a h)

theorem Snd_pumpAll (infoOf : AMsg → MsgInfo) (L : List (Nat × Nat)) (s : St) (hs : Snd L s) : Snd L (pumpAll infoOf s) := by
  unfold pumpAll
  dsimp only
  apply Snd_foldl
  · intro s ai h
    exact Snd_of_le (le_pumpAppResp _ _ (le_pumpAppRecv infoOf _ _ (Le.refl _))) h
  · apply Snd_foldl
    · intro s c h
      refine Snd_of_le (le_pumpWriter _ _ (Le.refl _)) ?_
      apply Snd_foldl
      · intro s _ h; exact Snd_pumpReader infoOf L s c.id h
      · exact h
    · exact hs

/-! ### the sockets' inboxes -/

/-- every request still waiting in a socket's inbox is in the log -/
def IB (L : List (Nat × Nat)) (w : World) : Prop :=
  ∀ p ∈ w.inbox, ∀ e ∈ p.2, ∀ msgs, e = RxEv.data msgs → ∀ m ∈ msgs, m.isRequest = true → (p.1, m.hbh) ∈ L

def WSnd (L : List (Nat × Nat)) (w : World) : Prop := Snd L w.st ∧ IB L w

theorem WSnd_mono {L L' : List (Nat × Nat)} {w : World} (hL : ∀ x ∈ L, x ∈ L') (h : WSnd L w) : WSnd L' w :=
  ⟨Snd_mono hL h.1, fun p hp e he msgs hm m hmm hr => hL _ (h.2 p hp e he msgs hm m hmm hr)⟩

/-- a step that leaves the inboxes alone and only shrinks the node's views -/
theorem WSnd_st {L : List (Nat × Nat)} {w w' : World} (h : WSnd L w) (hi : w'.inbox = w.inbox) (hl : w'.st ≼ w.st) :
    WSnd L w' := by
  refine ⟨Snd_of_le hl h.1, ?_⟩
  unfold IB; rw [hi]; exact h.2

theorem popRx_spec (L : List (Nat × Nat)) (w : World) (cid : Nat) (h : IB L w) :
    IB L (w.popRx cid).1 ∧
    ∀ msgs, (w.popRx cid).2 = some (RxEv.data msgs) → ∀ m ∈ msgs, m.isRequest = true → (cid, m.hbh) ∈ L := by
  unfold World.popRx
  split
  · rename_i k e rest hf
    have hmem := List.mem_of_find?_eq_some hf
    have hk : k = cid := by have := List.find?_some hf; simpa using this
    subst hk
    constructor
    · intro p hp e' he' msgs hm m hmm hr
      dsimp only at hp
      simp only [List.mem_map] at hp
      obtain ⟨q, hq, rfl⟩ := hp
      by_cases hqk : (q.1 == k) = true
      · simp only [hqk, if_true] at he' ⊢
        have hqk' : q.1 = k := by simpa using hqk
        rw [hqk']
        exact h (k, e :: rest) hmem e' (List.mem_cons_of_mem _ he') msgs hm m hmm hr
      · simp only [hqk, if_false, Bool.false_eq_true] at he' ⊢
        exact h q hq e' he' msgs hm m hmm hr
    · intro msgs hm m hmm hr
      dsimp only at hm
      have : e = RxEv.data msgs := by injection hm
      exact h (k, e :: rest) hmem e (List.mem_cons_self ..) msgs this m hmm hr
  · exact ⟨h, fun msgs hm => by simp at hm⟩

theorem popRx_inbox_st (w : World) (cid : Nat) : (w.popRx cid).1.st = w.st := popRx_st w cid

theorem WSnd_handleReadable (L : List (Nat × Nat)) (w : World) (cid : Nat) (h : WSnd L w) : WSnd L (handleReadable w cid) := by
  unfold handleReadable
  split
  · exact h
  · obtain ⟨hib, hdata⟩ := popRx_spec L w cid h.2
    have hst : (w.popRx cid).1.st = w.st := popRx_st w cid
    have hw1 : WSnd L (w.popRx cid).1 := ⟨by rw [hst]; exact h.1, hib⟩
    dsimp only
    generalize hr : w.popRx cid = r at *
    obtain ⟨w1, ev⟩ := r
    dsimp only at *
    split
    · exact hw1
    · exact hw1
    · exact WSnd_st hw1 rfl (le_connClose _ _ _ (le_closeConnectionSocket _ _ _ (Le.refl _)))
    · exact WSnd_st hw1 rfl (le_connClose _ _ _ (le_closeConnectionSocket _ _ _ (Le.refl _)))
    · rename_i msgs
      refine ⟨⟨hw1.1.1, ?_⟩, hw1.2⟩
      intro x hx hreq
      rw [mem_inqm] at hx
      obtain ⟨c', hc', hid, ch, hch, hm⟩ := hx
      simp only [St.modConn, List.mem_map] at hc'
      obtain ⟨c0, hc0, rfl⟩ := hc'
      split at hid
      · rename_i hk
        split at hch
        · dsimp only at hid hch
          have hx1 : x.1 = cid := by rw [← hid]; simpa using hk
          rcases List.mem_append.mp hch with hch | hch
          · exact hw1.1.2 x (mem_inqm.mpr ⟨c0, hc0, hid, ch, hch, hm⟩) hreq
          · have : ch = msgs := by simpa using hch
            subst this
            rw [hx1]
            exact hdata ch rfl x.2 hm hreq
        · exact absurd hk (by assumption)
      · split at hch
        · rename_i h1 h2; exact absurd h2 h1
        · exact hw1.1.2 x (mem_inqm.mpr ⟨c0, hc0, hid, ch, hch, hm⟩) hreq
    · refine ⟨⟨hw1.1.1, ?_⟩, hw1.2⟩
      intro x hx hreq
      rw [mem_inqm] at hx
      obtain ⟨c', hc', hid, ch, hch, hm⟩ := hx
      simp only [St.modConn, List.mem_map] at hc'
      obtain ⟨c0, hc0, rfl⟩ := hc'
      split at hid
      · split at hch
        · dsimp only at hid hch
          rcases List.mem_append.mp hch with hch | hch
          · exact hw1.1.2 x (mem_inqm.mpr ⟨c0, hc0, hid, ch, hch, hm⟩) hreq
          · have : ch = [] := by simpa using hch
            subst this
            exact absurd hm (List.not_mem_nil)
        · rename_i hk _; exact absurd hk (by assumption)
      · split at hch
        · rename_i h1 h2; exact absurd h2 h1
        · exact hw1.1.2 x (mem_inqm.mpr ⟨c0, hc0, hid, ch, hch, hm⟩) hreq

theorem inbox_connectResult (w : World) (cid : Nat) (c : Conn) : (connectResult w cid c).1.inbox = w.inbox := by
  unfold connectResult
  repeat (first | rfl | split | dsimp only)

theorem popTx_inbox (w : World) (cid : Nat) : (w.popTx cid).1.inbox = w.inbox := by
  unfold World.popTx
  repeat (first | rfl | split)

theorem inbox_flushWritable (w : World) (cid : Nat) : (flushWritable w cid).inbox = w.inbox := by
  unfold flushWritable
  repeat (first | rfl | split | dsimp only | simp only [popTx_inbox])

theorem inbox_handleWritable (w : World) (cid : Nat) : (handleWritable w cid).inbox = w.inbox := by
  unfold handleWritable
  repeat (first | rfl | split | dsimp only | simp only [inbox_flushWritable, inbox_connectResult])

theorem WSnd_foldlW {α : Type} (L : List (Nat × Nat)) (f : World → α → World) (hf : ∀ w a, WSnd L w → WSnd L (f w a))
    (l : List α) (w : World) (h : WSnd L w) : WSnd L (l.foldl f w) := by
  induction l generalizing w with
  | nil => exact h
  | cons a l ih => exact ih _ (hf w a h)

theorem WSnd_ioIteration (L : List (Nat × Nat)) (w : World) (h : WSnd L w) : WSnd L (ioIteration w) := by
  unfold ioIteration
  dsimp only
  generalize hW : List.foldl handleWritable _ _ = W
  have hWs : WSnd L W := by
    rw [← hW]
    apply WSnd_foldlW
    · intro w a hw
      exact WSnd_st hw (inbox_handleWritable w a) (le_handleWritable w a (Le.refl _))
    · apply WSnd_foldlW
      · intro w a hw; exact WSnd_handleReadable L w a hw
      · have h1 : WSnd L (if (!w.st.pipe.isEmpty) = true then { w with st := handleInterrupt w.st } else w) := by
          split
          · exact WSnd_st h rfl (le_handleInterrupt _ (Le.refl _))
          · exact h
        generalize (if (!w.st.pipe.isEmpty) = true then { w with st := handleInterrupt w.st } else w) = w1 at h1
        split
        · exact WSnd_st h1 rfl (le_handleAccept _ (Le.refl _))
        · exact h1
  exact WSnd_st hWs rfl (le_reconnectPeers _ (le_foldl _ (fun s a hs => le_checkTimers s a hs) _ _ (Le.refl _)))

theorem WSnd_settle (infoOf : AMsg → MsgInfo) (L : List (Nat × Nat)) (n : Nat) (w : World) (h : WSnd L w) :
    WSnd L (settle infoOf n w) := by
  induction n generalizing w with
  | zero => exact h
  | succ n ih =>
    unfold settle
    dsimp only
    have h1 := WSnd_ioIteration L w h
    have h2 : WSnd L { ioIteration w with st := pumpAll infoOf (ioIteration w).st } :=
      ⟨Snd_pumpAll infoOf L _ h1.1, h1.2⟩
    split
    · exact ih _ h2
    · exact h2

end DV.Node
