/-
  "Nothing is left behind": in every reachable state, every connection whose
  worker threads are still running is registered in `node.connections`, and
  `_peer_waiting_answer` has tables only for registered connections.  So once
  every connection has ended (`connections = []`) no worker thread runs and no
  pending-answer table remains, however many connections and requests there were.
-/
import DV.Proofs.NodeTables
import DV.Proofs.NodeQ
import DV.Proofs.NodePWK
import DV.Proofs.NodeWSV
namespace DV.Node
set_option linter.unusedSimpArgs false

/-- every connection with running workers is registered -/
def WInv (s : St) : Prop := ∀ p ∈ s.wsv, p.2 = false → p.1 ∈ s.connections
/-- pending-answer tables exist for registered connections only -/
def PInv (s : St) : Prop := ∀ k ∈ s.pwk, k ∈ s.connections
def LInv (s : St) : Prop := TInv s ∧ WInv s ∧ PInv s

theorem LInv_same {s s' : St} (h : LInv s) (h1 : s'.connections = s.connections) (h2 : s'.peerSockets = s.peerSockets)
    (h3 : s'.halfReady = s.halfReady) (h4 : s'.socketPeers = s.socketPeers) (h5 : s'.wsv = s.wsv) (h6 : s'.pwk = s.pwk) :
    LInv s' := by
  obtain ⟨a, b, c⟩ := h
  refine ⟨TInv_of_eq h1 h2 h3 h4 a, ?_, ?_⟩
  · unfold WInv; rw [h5, h1]; exact b
  · unfold PInv; rw [h6, h1]; exact c

/-- close a goal `LInv (f s …)` for an `f` that leaves tables, worker flags and pending keys alone -/
macro "lsame" h:term : tactic => `(tactic| (refine LInv_same $h ?_ ?_ ?_ ?_ ?_ ?_ <;> simp (disch := tame) [wsv_modConn_tame]))

/-- workers are only ever stopped, never restarted: every running worker of `s'` was running in `s` -/
def WMono (s s' : St) : Prop := ∀ p ∈ s'.wsv, p.2 = false → p ∈ s.wsv

theorem WInv_mono {s s' : St} (h : WInv s) (hm : WMono s s') (hc : ∀ x ∈ s.connections, x ∈ s'.connections) : WInv s' := by
  intro p hp hf
  exact hc _ (h p (hm p hp hf) hf)

theorem WMono_modConn (s : St) (i : Nat) (f : Conn → Conn)
    (hf : ∀ c, (f c).id = c.id ∧ ((f c).workersStopped = false → c.workersStopped = false)) : WMono s (s.modConn i f) := by
  intro p hp hfalse
  simp only [St.wsv, St.modConn, List.map_map, List.mem_map, Function.comp] at hp ⊢
  obtain ⟨c, hc, rfl⟩ := hp
  refine ⟨c, hc, ?_⟩
  by_cases hi : (c.id == i) = true
  · simp only [hi, if_true] at hfalse ⊢
    rw [(hf c).1, hfalse, (hf c).2 hfalse]
  · simp only [hi] at hfalse ⊢
    rfl

theorem LInv_connClose (s : St) (cid : Nat) (b : Bool) (h : LInv s) : LInv (connClose s cid b) := by
  obtain ⟨a, w, p⟩ := h
  refine ⟨TInv_connClose s cid b a, ?_, ?_⟩
  · apply WInv_mono w
    · unfold connClose
      have := WMono_modConn s cid (fun c => { c with state := .closed, workersStopped := true }) (by intro c; exact ⟨rfl, fun h => by simp at h⟩)
      split
      · exact this
      · exact this
    · intro x hx; rw [connections_connClose]; exact hx
  · unfold PInv; rw [pwk_connClose, connections_connClose]; exact p

/-- all connection objects with this id have stopped workers -/
def stoppedAt (s : St) (cid : Nat) : Prop := ∀ p ∈ s.wsv, p.1 = cid → p.2 = true

theorem stoppedAt_of_unregistered {s : St} (h : WInv s) {cid : Nat} (hc : cid ∉ s.connections) : stoppedAt s cid := by
  intro p hp hid
  cases hb : p.2 with
  | true => rfl
  | false => exact absurd (hid ▸ h p hp hb) hc

theorem stoppedAt_connClose (s : St) (cid : Nat) (b : Bool) : stoppedAt (connClose s cid b) cid := by
  have key : stoppedAt (s.modConn cid fun c => { c with state := .closed, workersStopped := true }) cid := by
    intro p hp hid
    simp only [St.wsv, St.modConn, List.map_map, List.mem_map, Function.comp] at hp
    obtain ⟨c, _, rfl⟩ := hp
    by_cases hi : (c.id == cid) = true
    · simp only [hi, if_true]
    · simp only [hi] at hid ⊢
      exact absurd (by simpa using hid) hi
  unfold connClose
  split
  · exact key
  · exact key

theorem removePeerConnection_pwk (s : St) (cid : Nat) (r : Reason) :
    ∀ k ∈ (removePeerConnection s cid r).pwk, k ∈ s.pwk ∧ (k ≠ cid ∨ s.conn? cid = none) := by
  unfold removePeerConnection
  cases hc : s.conn? cid with
  | none => intro k hk; exact ⟨hk, Or.inr rfl⟩
  | some c =>
    intro k hk
    have hk' : k ∈ (s.peerWaiting.filter (·.1 != cid)).map (·.1) := by
      revert hk
      simp only []
      repeat (first | exact id | split)
    simp only [List.mem_map, List.mem_filter] at hk'
    obtain ⟨e, ⟨he, hne⟩, rfl⟩ := hk'
    exact ⟨List.mem_map.mpr ⟨e, he, rfl⟩, Or.inl (by simpa using hne)⟩

theorem removePeerConnection_connections (s : St) (cid : Nat) (r : Reason) :
    (removePeerConnection s cid r).connections = s.connections ∧ s.conn? cid = none ∨
    (removePeerConnection s cid r).connections = erase s.connections cid := by
  unfold removePeerConnection
  cases hc : s.conn? cid with
  | none => exact Or.inl ⟨rfl, rfl⟩
  | some c =>
    right
    simp only []
    repeat (first | rfl | split)

theorem LInv_removePeerConnection (hk : Config.removeCleansTables = true) (s : St) (cid : Nat) (r : Reason) (h : LInv s)
    (hst : stoppedAt s cid) : LInv (removePeerConnection s cid r) := by
  obtain ⟨a, w, p⟩ := h
  refine ⟨TInv_removePeerConnection hk s cid r a, ?_, ?_⟩
  · intro q hq hf
    rw [wsv_removePeerConnection] at hq
    have hin := w q hq hf
    rcases removePeerConnection_connections s cid r with ⟨h1, _⟩ | h1
    · rw [h1]; exact hin
    · rw [h1, mem_erase_iff]
      refine ⟨hin, ?_⟩
      intro hid
      have := hst q hq hid
      rw [hf] at this
      exact Bool.noConfusion this
  · intro k hk
    obtain ⟨hk1, hk2⟩ := removePeerConnection_pwk s cid r k hk
    have hin := p k hk1
    rcases removePeerConnection_connections s cid r with ⟨h1, _⟩ | h1
    · rw [h1]; exact hin
    · rw [h1, mem_erase_iff]
      refine ⟨hin, ?_⟩
      rcases hk2 with hk2 | hk2
      · exact hk2
      · intro hid
        -- `conn? cid = none`: then the connection list was left alone (first case), contradiction is not needed:
        -- erase of an id … still need k ≠ cid; use the table: none ⇒ connections unchanged
        have := removePeerConnection_connections s cid r
        unfold removePeerConnection at h1
        simp only [hk2] at h1
        -- h1 : s.connections = erase s.connections cid
        have hmem : k ∈ erase s.connections cid := h1 ▸ hin
        rw [mem_erase_iff] at hmem
        exact hmem.2 hid

theorem LInv_closeConnectionSocket (hk : Config.removeCleansTables = true) (s : St) (cid : Nat) (r : Reason) (h : LInv s) :
    LInv (closeConnectionSocket s cid r) := by
  unfold closeConnectionSocket
  split
  · apply LInv_removePeerConnection hk
    · exact LInv_connClose _ _ _ (by lsame h)
    · exact stoppedAt_connClose _ _ _
  · rename_i hc
    apply LInv_removePeerConnection hk _ _ _ h
    apply stoppedAt_of_unregistered h.2.1
    rw [h.1.1]
    intro hin
    exact hc (by simpa using hin)

@[simp] theorem pwk_addPeerConnection (s : St) (c : Conn) : (addPeerConnection s c).1.pwk = s.pwk := by
  unfold addPeerConnection
  repeat (first | rfl | split | dsimp only)

/-- what `_add_peer_connection` does to the worker view: refused — the new object is stopped, nobody is restarted;
    accepted — the new object is appended and its id registered -/
theorem add_wsv (hr : Config.rejectStopsWorkers = true) (s : St) (c : Conn) :
    ((addPeerConnection s c).1.connections = s.connections ∧
      ∀ p ∈ (addPeerConnection s c).1.wsv, p.2 = false → p ∈ s.wsv) ∨
    ((addPeerConnection s c).1.connections = s.connections ++ [c.id] ∧
      (addPeerConnection s c).1.wsv = s.wsv ++ [(c.id, c.workersStopped)]) := by
  have refused : ∀ p ∈ ({ s with conns := s.conns ++ [c] }.modConn c.id fun x =>
      { x with sockClosed := true, hasSocket := false, state := .closed, workersStopped := true }).wsv, p.2 = false → p ∈ s.wsv := by
    intro p hp hf
    have h1 := WMono_modConn { s with conns := s.conns ++ [c] } c.id
      (fun x => { x with sockClosed := true, hasSocket := false, state := .closed, workersStopped := true })
      (by intro c; exact ⟨rfl, fun h => by simp at h⟩) p hp hf
    -- p is a running entry of `conns ++ [c]`; were it the new object, the update would have stopped it
    simp only [St.wsv, List.map_append, List.mem_append, List.map_cons, List.map_nil, List.mem_singleton] at h1
    rcases h1 with h1 | h1
    · exact h1
    · exfalso
      have := stoppedAt_connClose { s with conns := s.conns ++ [c] } c.id false
      have key : stoppedAt ({ s with conns := s.conns ++ [c] }.modConn c.id fun x =>
          { x with sockClosed := true, hasSocket := false, state := .closed, workersStopped := true }) c.id := by
        intro q hq hid
        simp only [St.wsv, St.modConn, List.map_map, List.mem_map, Function.comp] at hq
        obtain ⟨d, _, rfl⟩ := hq
        by_cases hi : (d.id == c.id) = true
        · simp only [hi, if_true]
        · simp only [hi] at hid ⊢
          exact absurd (by simpa using hid) hi
      have := key p hp (by rw [h1])
      rw [hf] at this
      exact Bool.noConfusion this
  have hw : ∀ s1 : St, s1.conns = s.conns ++ [c] → s1.wsv = s.wsv ++ [(c.id, c.workersStopped)] := by
    intro s1 h1; simp [St.wsv, h1]
  unfold addPeerConnection
  simp only [hr, if_true]
  repeat (first
    | exact Or.inl ⟨rfl, refused⟩
    | exact Or.inr ⟨rfl, hw _ rfl⟩
    | split
    | dsimp only)

theorem LInv_addPeerConnection (hr : Config.rejectStopsWorkers = true) (s : St) (c : Conn) (h : LInv s) :
    LInv (addPeerConnection s c).1 := by
  obtain ⟨a, w, p⟩ := h
  refine ⟨TInv_addPeerConnection s c a, ?_, ?_⟩
  · rcases add_wsv hr s c with ⟨h1, h2⟩ | ⟨h1, h2⟩
    · intro q hq hf
      rw [h1]
      exact w q (h2 q hq hf) hf
    · intro q hq hf
      rw [h1]
      rw [h2] at hq
      rcases List.mem_append.mp hq with hq | hq
      · exact List.mem_append_left _ (w q hq hf)
      · rw [List.mem_singleton.mp hq]
        exact List.mem_append_right _ (List.mem_singleton.mpr rfl)
  · intro k hk
    rw [pwk_addPeerConnection] at hk
    have := p k hk
    rcases add_wsv hr s c with ⟨h1, _⟩ | ⟨h1, _⟩
    · rw [h1]; exact this
    · rw [h1]; exact List.mem_append_left _ this

theorem LInv_of {s s' : St} (h : LInv s) (hT : TInv s') (h1 : s'.connections = s.connections) (h5 : s'.wsv = s.wsv)
    (h6 : s'.pwk = s.pwk) : LInv s' := by
  obtain ⟨_, b, c⟩ := h
  refine ⟨hT, ?_, ?_⟩
  · unfold WInv; rw [h5, h1]; exact b
  · unfold PInv; rw [h6, h1]; exact c

theorem LInv_foldl {α : Type} (f : St → α → St) (hf : ∀ s a, LInv s → LInv (f s a)) (l : List α) (s : St) (h : LInv s) :
    LInv (l.foldl f s) := by
  induction l generalizing s with
  | nil => exact h
  | cons a l ih => exact ih _ (hf s a h)

theorem LInv_sendMessage (s : St) (cid : Nat) (m : AMsg) (b : Bool) (h : LInv s) : LInv (sendMessage s cid m b).1 := by
  lsame h

theorem LInv_sendCer (s : St) (cid : Nat) (h : LInv s) : LInv (sendCer s cid) := by lsame h
theorem LInv_sendDwr (s : St) (cid : Nat) (h : LInv s) : LInv (sendDwr s cid) := by lsame h
theorem LInv_sendDpr (s : St) (cid : Nat) (h : LInv s) : LInv (sendDpr s cid) := by lsame h
theorem LInv_flagReady (s : St) (cid : Nat) (h : LInv s) : LInv (flagConnectionAsReady s cid) := by lsame h
theorem LInv_crashReader (s : St) (cid : Nat) (e : String) (h : LInv s) : LInv (crashReader s cid e) := by
  refine LInv_same h rfl rfl rfl rfl ?_ rfl
  exact wsv_modConn_tame _ _ _ (by tame)

@[simp] theorem connections_assignPeerConnection (s : St) (cid : Nat) : (assignPeerConnection s cid).connections = s.connections := by
  unfold assignPeerConnection
  repeat (first | rfl | split | dsimp only)

@[simp] theorem pwk_assignPeerConnection (s : St) (cid : Nat) : (assignPeerConnection s cid).pwk = s.pwk := by
  unfold assignPeerConnection
  repeat (first | rfl | split | dsimp only)

theorem LInv_assignPeerConnection (s : St) (cid : Nat) (h : LInv s) : LInv (assignPeerConnection s cid) :=
  LInv_of h (TInv_assignPeerConnection s cid h.1) (by simp) (by simp) (by simp)

theorem LInv_cerNameAndElect (s : St) (cid : Nat) (hn : String) (h : LInv s) : LInv (cerNameAndElect s cid hn).1 := by
  unfold cerNameAndElect
  have hf : ∀ (l : List Conn) (s : St), LInv s → LInv (l.foldl (fun s o => connClose s o.id true) s) :=
    fun l s hs => LInv_foldl (fun s (o : Conn) => connClose s o.id true) (fun s a hs => LInv_connClose s a.id true hs) l s hs
  have hm : ∀ f : Conn → Conn, (∀ c, (f c).id = c.id ∧ (f c).workersStopped = c.workersStopped) → LInv (s.modConn cid f) :=
    fun f hf' => LInv_same h rfl rfl rfl rfl (wsv_modConn_tame _ _ _ hf') rfl
  dsimp only
  repeat (first | exact h | exact hm _ (by tame) | (apply hf) | split)

@[simp] theorem connections_cerNameAndElect (s : St) (cid : Nat) (hn : String) : (cerNameAndElect s cid hn).1.connections = s.connections := by
  unfold cerNameAndElect
  have hf : ∀ (l : List Conn) (s : St), (l.foldl (fun s o => connClose s o.id true) s).connections = s.connections :=
    fun l s => connections_foldl (fun s (o : Conn) => connClose s o.id true) (fun s a => connections_connClose s a.id true) l s
  dsimp only
  repeat (first | rfl | rw [hf] | split)

/-! ### the receive path -/

/-- (id, state) of every connection object -/
def St.stv (s : St) : List (Nat × CState) := s.conns.map fun c => (c.id, c.state)

theorem stv_modConn_tame (s : St) (i : Nat) (f : Conn → Conn)
    (h : ∀ c, (f c).id = c.id ∧ (f c).state = c.state) : (s.modConn i f).stv = s.stv := by
  simp only [St.stv, St.modConn, List.map_map]
  apply List.map_congr_left
  intro c _
  simp only [Function.comp]
  split
  · simp [(h c).1, (h c).2]
  · rfl

/-- every connection object with this id is CLOSED -/
def closedAt (s : St) (cid : Nat) : Prop := ∀ p ∈ s.stv, p.1 = cid → p.2 = .closed
/-- the connection is registered, or it has been closed -/
def D (s : St) (cid : Nat) : Prop := cid ∈ s.connections ∨ closedAt s cid

theorem D_same {s s' : St} {cid : Nat} (h : D s cid) (h1 : s'.connections = s.connections) (h2 : s'.stv = s.stv) : D s' cid := by
  unfold D closedAt at *; rw [h1, h2]; exact h

theorem closedAt_connClose (s : St) (cid : Nat) (b : Bool) : closedAt (connClose s cid b) cid := by
  have key : closedAt (s.modConn cid fun c => { c with state := .closed, workersStopped := true }) cid := by
    intro p hp hid
    simp only [St.stv, St.modConn, List.map_map, List.mem_map, Function.comp] at hp
    obtain ⟨c, _, rfl⟩ := hp
    by_cases hi : (c.id == cid) = true
    · simp only [hi, if_true]
    · simp only [hi] at hid ⊢
      exact absurd (by simpa using hid) hi
  unfold connClose
  split
  · exact key
  · exact key

theorem closedAt_closeConnectionSocket (s : St) (cid : Nat) (r : Reason) (h : s.peerSockets.contains cid = true) :
    closedAt (closeConnectionSocket s cid r) cid := by
  unfold closeConnectionSocket
  simp only [h, if_true]
  unfold closedAt St.stv
  rw [removePeerConnection_conns]
  exact closedAt_connClose _ _ _

@[simp] theorem stv_recordAnswerState (s : St) (cid : Nat) (m : AMsg) : (recordAnswerState s cid m).stv = s.stv := by
  unfold recordAnswerState
  repeat (first | rfl | split | dsimp only)

@[simp] theorem stv_sendMessage (s : St) (cid : Nat) (m : AMsg) (b : Bool) : (sendMessage s cid m b).1.stv = s.stv := by
  unfold sendMessage
  repeat (first | rfl | split | dsimp only | simp only [stv_recordAnswerState] | exact stv_modConn_tame _ _ _ (by tame))

@[simp] theorem stv_crashReader (s : St) (cid : Nat) (e : String) : (crashReader s cid e).stv = s.stv :=
  stv_modConn_tame _ _ _ (by tame)

set_option maxHeartbeats 1000000 in
theorem LInv_receiveCer (s : St) (cid : Nat) (m : AMsg) (info : MsgInfo) (h : LInv s) : LInv (receiveCer s cid m info).1 := by
  unfold receiveCer
  have he := fun hn => LInv_cerNameAndElect s cid hn h
  have hm : ∀ (s : St) (f : Conn → Conn), LInv s → (∀ c, (f c).id = c.id ∧ (f c).workersStopped = c.workersStopped) → LInv (s.modConn cid f) :=
    fun s f hs hf' => LInv_same hs rfl rfl rfl rfl (wsv_modConn_tame _ _ _ hf') rfl
  repeat (first
    | exact h
    | exact LInv_sendMessage _ _ _ _ (hm _ _ h (by tame))
    | exact LInv_sendMessage _ _ _ _ (he _)
    | exact LInv_sendMessage _ _ _ _ (hm _ _ (he _) (by tame))
    | exact LInv_sendMessage _ _ _ _ (LInv_flagReady _ _ (LInv_assignPeerConnection _ _ (hm _ _ (he _) (by tame))))
    | split
    | exact hm _ _ (he _) (by tame)
    | dsimp only)

@[simp] theorem connections_receiveCer (s : St) (cid : Nat) (m : AMsg) (info : MsgInfo) :
    (receiveCer s cid m info).1.connections = s.connections := by
  unfold receiveCer
  repeat (first
    | rfl
    | split
    | simp only [connections_sendMessage, connections_modConn, connections_cerNameAndElect, connections_flagReady, connections_assignPeerConnection]
    | dsimp only)

theorem LInv_receiveCea (hk : Config.removeCleansTables = true) (s : St) (cid : Nat) (m : AMsg) (h : LInv s) :
    LInv (receiveCea s cid m).1 := by
  unfold receiveCea
  have hm : ∀ (f : Conn → Conn), (∀ c, (f c).id = c.id ∧ (f c).workersStopped = c.workersStopped) → LInv (s.modConn cid f) :=
    fun f hf' => LInv_same h rfl rfl rfl rfl (wsv_modConn_tame _ _ _ hf') rfl
  repeat (first
    | exact h
    | exact LInv_closeConnectionSocket hk _ _ _ h
    | exact LInv_flagReady _ _ (LInv_assignPeerConnection _ _ (hm _ (by tame)))
    | split
    | dsimp only)

theorem D_receiveCea (s : St) (cid : Nat) (m : AMsg) (h : TInv s) (hc : cid ∈ s.connections) : D (receiveCea s cid m).1 cid := by
  unfold receiveCea
  have hps : s.peerSockets.contains cid = true := by rw [← h.1]; simpa using hc
  repeat (first
    | exact Or.inl hc
    | exact Or.inr (closedAt_closeConnectionSocket _ _ _ hps)
    | (left; simpa using hc)
    | split
    | dsimp only)

@[simp] theorem wsv_appReceiveRequest' (s : St) (ai : Nat) (m : AMsg) : (appReceiveRequest s ai m).1.wsv = s.wsv := by
  unfold appReceiveRequest
  repeat (first | rfl | split | dsimp only)

theorem LInv_appReceiveRequest (s : St) (ai : Nat) (m : AMsg) (h : LInv s) : LInv (appReceiveRequest s ai m).1 := by
  refine LInv_same h ?_ ?_ ?_ ?_ ?_ ?_ <;> simp

theorem LInv_receiveAppRequest (s : St) (cid : Nat) (m : AMsg) (info : MsgInfo) (h : LInv s) (hc : cid ∈ s.connections) :
    LInv (receiveAppRequest s cid m info).1 := by
  unfold receiveAppRequest
  -- registering the request under the connection's id keeps the keys inside `connections`
  obtain ⟨a, w, p⟩ := h
  have hadd1 : LInv { s with peerWaiting := s.peerWaiting.map fun (h, l) =>
      if h == cid then (h, if l.contains m.hbh then l else l ++ [m.hbh]) else (h, l) } := by
    refine ⟨TInv_of_eq rfl rfl rfl rfl a, w, ?_⟩
    intro k hk
    have e : ({ s with peerWaiting := s.peerWaiting.map fun (h, l) =>
        if h == cid then (h, if l.contains m.hbh then l else l ++ [m.hbh]) else (h, l) } : St).pwk = s.pwk :=
      map_fst_ite s.peerWaiting (fun x => x.1 == cid) (fun x => if x.2.contains m.hbh then x.2 else x.2 ++ [m.hbh])
    rw [e] at hk
    exact p k hk
  have hadd2 : LInv { s with peerWaiting := s.peerWaiting ++ [(cid, [m.hbh])] } := by
    refine ⟨TInv_of_eq rfl rfl rfl rfl a, w, ?_⟩
    intro k hk
    simp only [St.pwk, List.map_append, List.mem_append, List.map_cons, List.map_nil, List.mem_singleton] at hk
    rcases hk with hk | hk
    · exact p k hk
    · rw [hk]; exact hc
  have h : LInv s := ⟨a, w, p⟩
  repeat (first
    | exact h
    | exact LInv_sendMessage _ _ _ _ h
    | exact LInv_appReceiveRequest _ _ _ hadd1
    | exact LInv_appReceiveRequest _ _ _ hadd2
    | split
    | dsimp only)

theorem LInv_handleByCommand (hk : Config.removeCleansTables = true) (s : St) (cid : Nat) (m : AMsg) (info : MsgInfo)
    (h : LInv s) (hc : cid ∈ s.connections) : LInv (handleByCommand s cid m info).1 := by
  unfold handleByCommand
  dsimp only
  have h1 : LInv (if m.isRequest then
      match (s.conn? cid).bind (findConnectionPeer s) with
      | some pi => s.modPeer pi fun p => { p with requests := p.requests + 1 }
      | none => s
    else s) ∧ cid ∈ (if m.isRequest then
      match (s.conn? cid).bind (findConnectionPeer s) with
      | some pi => s.modPeer pi fun p => { p with requests := p.requests + 1 }
      | none => s
    else s).connections := by
    repeat (first | exact ⟨h, hc⟩ | exact ⟨LInv_same h rfl rfl rfl rfl rfl rfl, hc⟩ | split)
  generalize (if m.isRequest then
      match (s.conn? cid).bind (findConnectionPeer s) with
      | some pi => s.modPeer pi fun p => { p with requests := p.requests + 1 }
      | none => s
    else s) = s1 at h1 ⊢
  obtain ⟨h1, hc1⟩ := h1
  repeat (first
    | exact LInv_receiveCer _ _ _ _ h1
    | exact LInv_receiveCea hk _ _ _ h1
    | exact LInv_receiveAppRequest _ _ _ _ h1 hc1
    | split
    | lsame h1)

theorem D_handleByCommand (s : St) (cid : Nat) (m : AMsg) (info : MsgInfo)
    (h : TInv s) (hc : cid ∈ s.connections) : D (handleByCommand s cid m info).1 cid := by
  unfold handleByCommand
  dsimp only
  have h1 : TInv (if m.isRequest then
      match (s.conn? cid).bind (findConnectionPeer s) with
      | some pi => s.modPeer pi fun p => { p with requests := p.requests + 1 }
      | none => s
    else s) ∧ cid ∈ (if m.isRequest then
      match (s.conn? cid).bind (findConnectionPeer s) with
      | some pi => s.modPeer pi fun p => { p with requests := p.requests + 1 }
      | none => s
    else s).connections := by
    repeat (first | exact ⟨h, hc⟩ | exact ⟨TInv_of_eq rfl rfl rfl rfl h, hc⟩ | split)
  generalize (if m.isRequest then
      match (s.conn? cid).bind (findConnectionPeer s) with
      | some pi => s.modPeer pi fun p => { p with requests := p.requests + 1 }
      | none => s
    else s) = s1 at h1 ⊢
  obtain ⟨h1, hc1⟩ := h1
  repeat (first
    | exact D_receiveCea _ _ _ h1 hc1
    | split
    | (left; simpa using hc1))

@[simp] theorem stv_recordOrigin (s : St) (cid : Nat) (m : AMsg) (info : MsgInfo) : (recordOrigin s cid m info).stv = s.stv := by
  unfold recordOrigin
  split <;> rfl

/-- `_receive_message` on a registered connection keeps the invariant, and the connection is afterwards still
    registered or has been closed (the rejected-CEA path) -/
theorem LD_receiveMessage (hk : Config.removeCleansTables = true) (s : St) (cid : Nat) (m : AMsg) (info : MsgInfo)
    (h : LInv s) (hc : cid ∈ s.connections) : LInv (receiveMessage s cid m info) ∧ D (receiveMessage s cid m info) cid := by
  unfold receiveMessage
  have h0 : LInv (recordOrigin s cid m info) := by lsame h
  have hc0 : cid ∈ (recordOrigin s cid m info).connections := by simpa using hc
  generalize recordOrigin s cid m info = s0 at h0 hc0 ⊢
  have hb := LInv_handleByCommand hk s0 cid m info h0 hc0
  have hd := D_handleByCommand s0 cid m info h0.1 hc0
  have d0 : D s0 cid := Or.inl hc0
  -- sending an answer / recording a crash changes neither registration nor connection states
  have keepS : ∀ (s1 : St) (a : AMsg) (b : Bool), LInv s1 → D s1 cid → LInv (sendMessage s1 cid a b).1 ∧ D (sendMessage s1 cid a b).1 cid :=
    fun s1 a b h1 d1 => ⟨LInv_sendMessage _ _ _ _ h1, D_same d1 (by simp) (by simp)⟩
  have keepC : ∀ (s1 : St) (e : String), LInv s1 → D s1 cid → LInv (crashReader s1 cid e) ∧ D (crashReader s1 cid e) cid :=
    fun s1 e h1 d1 => ⟨LInv_crashReader _ _ _ h1, D_same d1 rfl (by simp)⟩
  dsimp only
  repeat (first
    | exact ⟨h0, d0⟩
    | exact keepC _ _ h0 d0
    | exact keepS _ _ _ h0 d0
    | exact keepC _ _ (keepS _ _ _ h0 d0).1 (keepS _ _ _ h0 d0).2
    | split)
  all_goals (rename_i hh; rw [hh] at hb hd)
  · exact ⟨hb, hd⟩
  · repeat (first
      | exact ⟨hb, hd⟩
      | exact keepS _ _ _ hb hd
      | exact keepC _ _ (keepS _ _ _ hb hd).1 (keepS _ _ _ hb hd).2
      | split)

theorem LD_dispatchMessage (hk : Config.removeCleansTables = true) (hg : Config.gateClosing = true)
    (s : St) (cid : Nat) (m : AMsg) (info : MsgInfo) (h : LInv s) (hd : D s cid) :
    LInv (dispatchMessage s cid m info) ∧ D (dispatchMessage s cid m info) cid := by
  rcases hd with hc | hcl
  · unfold dispatchMessage
    repeat (first | exact ⟨h, Or.inl hc⟩ | exact LD_receiveMessage hk s cid m info h hc | split)
  · -- every object with this id is CLOSED: the gate drops the message
    have : dispatchMessage s cid m info = s := by
      unfold dispatchMessage
      cases hq : s.conn? cid with
      | none => rfl
      | some c =>
        have hmem : c ∈ s.conns := List.mem_of_find?_eq_some hq
        have hid : c.id = cid := by
          have := List.find?_some hq
          simpa using this
        have hst : c.state = .closed := hcl (c.id, c.state) (List.mem_map.mpr ⟨c, hmem, rfl⟩) hid
        simp [hst, hg]
    rw [this]
    exact ⟨h, Or.inr hcl⟩

theorem LInv_pumpReader (hk : Config.removeCleansTables = true) (hg : Config.gateClosing = true)
    (infoOf : AMsg → MsgInfo) (s : St) (cid : Nat) (h : LInv s) : LInv (pumpReader infoOf s cid) := by
  unfold pumpReader
  cases hq : s.conn? cid with
  | none => exact h
  | some c =>
    dsimp only
    split
    · exact h
    · rename_i hws
      split
      · exact h
      · -- the reader still runs, so the connection is registered
        have hmem : c ∈ s.conns := List.mem_of_find?_eq_some hq
        have hid : c.id = cid := by
          have := List.find?_some hq
          simpa using this
        have hrun : c.workersStopped = false := by
          cases hw : c.workersStopped with
          | false => rfl
          | true => simp [hw] at hws
        have hc : cid ∈ s.connections := by
          have := h.2.1 (c.id, c.workersStopped) (List.mem_map.mpr ⟨c, hmem, rfl⟩) hrun
          rw [← hid]; exact this
        have key : ∀ (l : List AMsg) (s1 : St), LInv s1 → D s1 cid →
            LInv (l.foldl (fun s m =>
              match s.conn? cid with
              | some c => if c.readerCrashed then s else dispatchMessage s cid m (infoOf m)
              | none => s) s1) := by
          intro l
          induction l with
          | nil => intro s1 h1 _; exact h1
          | cons a l ih =>
            intro s1 h1 d1
            rw [List.foldl_cons]
            have step : LInv (match s1.conn? cid with
                | some c => if c.readerCrashed then s1 else dispatchMessage s1 cid a (infoOf a)
                | none => s1) ∧ D (match s1.conn? cid with
                | some c => if c.readerCrashed then s1 else dispatchMessage s1 cid a (infoOf a)
                | none => s1) cid := by
              repeat (first | exact ⟨h1, d1⟩ | exact LD_dispatchMessage hk hg s1 cid a (infoOf a) h1 d1 | split)
            exact ih _ step.1 step.2
        apply key
        · exact LInv_same h rfl rfl rfl rfl (wsv_modConn_tame _ _ _ (by tame)) rfl
        · exact Or.inl hc

/-! ### timers, dialling, the I/O loop -/

theorem LInv_tame {s : St} (h : LInv s) (cid : Nat) (f : Conn → Conn)
    (hf : ∀ c, (f c).id = c.id ∧ (f c).workersStopped = c.workersStopped) : LInv (s.modConn cid f) :=
  LInv_same h rfl rfl rfl rfl (wsv_modConn_tame _ _ _ hf) rfl

theorem LInv_checkTimers (hk : Config.removeCleansTables = true) (s : St) (cid : Nat) (h : LInv s) : LInv (checkTimers s cid) := by
  unfold checkTimers
  repeat (first | exact h | exact LInv_closeConnectionSocket hk _ _ _ h | exact LInv_sendDwr _ _ h | split | dsimp only)

theorem LInv_connectToPeer (hk : Config.removeCleansTables = true) (hr : Config.rejectStopsWorkers = true) (s : St) (pi : Nat) (h : LInv s) : LInv (connectToPeer s pi) := by
  unfold connectToPeer
  split
  · exact h
  · split
    · exact h
    · split
      · exact h
      · dsimp only
        have h1 : ∀ (c : Conn), LInv ((addPeerConnection { s with dialPlan := s.dialPlan.drop 1, nextHbhSeed := s.nextHbhSeed + 1000 } c).1.emit (.dialled pi)) :=
          fun c => LInv_same (LInv_addPeerConnection hr { s with dialPlan := s.dialPlan.drop 1, nextHbhSeed := s.nextHbhSeed + 1000 } c
            (LInv_same h rfl rfl rfl rfl rfl rfl)) rfl rfl rfl rfl rfl rfl
        repeat (first
          | exact LInv_closeConnectionSocket hk _ _ _ (h1 _)
          | exact LInv_same (h1 _) rfl rfl rfl rfl rfl rfl
          | exact LInv_sendCer _ _ (LInv_tame (h1 _) _ _ (by tame))
          | split)

theorem LInv_reconnectStep (hk : Config.removeCleansTables = true) (hr : Config.rejectStopsWorkers = true) (s : St) (pi : Nat) (h : LInv s) : LInv (reconnectStep s pi) := by
  unfold reconnectStep
  repeat (first | exact h | exact LInv_connectToPeer hk hr s pi h | split)

theorem LInv_reconnectPeers (hk : Config.removeCleansTables = true) (hr : Config.rejectStopsWorkers = true) (s : St) (h : LInv s) : LInv (reconnectPeers s) := by
  unfold reconnectPeers
  split
  · exact h
  · exact LInv_foldl _ (fun s a hs => LInv_reconnectStep hk hr s a hs) _ _ h

theorem LInv_handleInterrupt (hk : Config.removeCleansTables = true) (s : St) (h : LInv s) : LInv (handleInterrupt s) := by
  unfold handleInterrupt
  split
  · exact h
  · dsimp only
    have h1 : LInv { s with pipe := ‹List Nat› } := LInv_same h rfl rfl rfl rfl rfl rfl
    repeat (first | exact h1 | exact LInv_closeConnectionSocket hk _ _ _ h1 | split)

theorem LInv_handleAccept (hr : Config.rejectStopsWorkers = true) (s : St) (h : LInv s) : LInv (handleAccept s) := by
  unfold handleAccept
  exact LInv_addPeerConnection hr { s with nextHbhSeed := s.nextHbhSeed + 1000 } _ (LInv_same h rfl rfl rfl rfl rfl rfl)

theorem LInv_handleReadable (hk : Config.removeCleansTables = true) (w : World) (cid : Nat) (h : LInv w.st) :
    LInv (handleReadable w cid).st := by
  unfold handleReadable
  have h1 : LInv (w.popRx cid).1.st := by rw [popRx_st]; exact h
  repeat (first
    | exact h
    | exact h1
    | exact LInv_connClose _ _ _ (LInv_closeConnectionSocket hk _ _ _ h1)
    | exact LInv_tame h1 _ _ (by tame)
    | split
    | dsimp only)

theorem LInv_connectResult (hk : Config.removeCleansTables = true) (w : World) (cid : Nat) (c : Conn) (h : LInv w.st) :
    LInv (connectResult w cid c).1.st := by
  unfold connectResult
  dsimp only
  have hm : LInv (w.st.modConn cid fun c => { c with state := .connected, established := w.st.now }) := LInv_tame h _ _ (by tame)
  repeat (first
    | exact h
    | exact LInv_connClose _ _ _ (LInv_closeConnectionSocket hk _ _ _ h)
    | exact LInv_sendCer _ _ hm
    | exact LInv_sendCer _ _ (LInv_same hm rfl rfl rfl rfl rfl rfl)
    | split)

theorem LInv_flushWritable (hk : Config.removeCleansTables = true) (w : World) (cid : Nat) (h : LInv w.st) :
    LInv (flushWritable w cid).st := by
  unfold flushWritable
  have hf : ∀ (l : List AMsg) (s : St), LInv s → LInv (l.foldl (fun s m => s.emit (.wrote cid m)) s) :=
    fun l s hs => LInv_foldl (fun s (m : AMsg) => s.emit (.wrote cid m)) (fun s a hs => LInv_same hs rfl rfl rfl rfl rfl rfl) l s hs
  have h1 : LInv (w.popTx cid).1.st := by rw [popTx_st]; exact h
  dsimp only
  split
  · exact h
  · split
    · split
      · exact LInv_closeConnectionSocket hk _ _ _ h
      · exact h
    · split
      · exact h1
      · exact LInv_connClose _ _ _ h1
      · have h2 := hf ‹Conn›.wbuf _ h1
        have h3 : LInv ((List.foldl (fun s m => s.emit (.wrote cid m)) (w.popTx cid).1.st ‹Conn›.wbuf).modConn cid fun c => { c with wbuf := [] }) :=
          LInv_tame h2 _ _ (by tame)
        repeat (first | exact h3 | exact LInv_closeConnectionSocket hk _ _ _ h3 | split)

theorem LInv_handleWritable (hk : Config.removeCleansTables = true) (w : World) (cid : Nat) (h : LInv w.st) :
    LInv (handleWritable w cid).st := by
  unfold handleWritable
  repeat (first
    | exact h
    | exact LInv_connectResult hk _ _ _ h
    | exact LInv_flushWritable hk _ _ (LInv_connectResult hk _ _ _ h)
    | split
    | dsimp only)

theorem LInv_foldlW {α : Type} (f : World → α → World) (hf : ∀ w a, LInv w.st → LInv (f w a).st) (l : List α) (w : World)
    (h : LInv w.st) : LInv (l.foldl f w).st := by
  induction l generalizing w with
  | nil => exact h
  | cons a l ih => exact ih _ (hf w a h)

theorem LInv_ioIteration (hk : Config.removeCleansTables = true) (hr : Config.rejectStopsWorkers = true) (w : World) (h : LInv w.st) : LInv (ioIteration w).st := by
  unfold ioIteration
  dsimp only
  apply LInv_reconnectPeers hk hr
  apply LInv_foldl _ (fun s a hs => LInv_checkTimers hk s a hs)
  apply LInv_foldlW _ (fun w a hw => LInv_handleWritable hk w a hw)
  apply LInv_foldlW _ (fun w a hw => LInv_handleReadable hk w a hw)
  repeat (first | exact h | exact LInv_handleInterrupt hk _ h | (apply LInv_handleAccept hr) | split)

/-! ### applications, pumps, stop -/

theorem LInv_appRecvStep (hcc : Config.appConsumersCatch = true) (infoOf : AMsg → MsgInfo) (ai mx : Nat) (s : St) (m : AMsg)
    (h : LInv s) : LInv (appRecvStep infoOf ai mx s m) := by
  unfold appRecvStep
  simp only [hcc, Bool.or_true, if_true]
  repeat (first | exact h | split | dsimp only | lsame h)

theorem LInv_pumpAppRecv (hcc : Config.appConsumersCatch = true) (infoOf : AMsg → MsgInfo) (s : St) (ai : Nat) (h : LInv s) :
    LInv (pumpAppRecv infoOf s ai) := by
  unfold pumpAppRecv
  repeat (first | exact h | exact LInv_foldl _ (fun s a hs => LInv_appRecvStep hcc infoOf ai _ s a hs) _ _ h | split)

theorem LInv_appRespStep (hcc : Config.appConsumersCatch = true) (ai : Nat) (s : St) (m : AMsg) (h : LInv s) :
    LInv (appRespStep ai s m) := by
  unfold appRespStep
  simp only [hcc, Bool.or_true, if_true]
  repeat (first | exact h | split | dsimp only | lsame h)

theorem LInv_appRespNones (ai : Nat) (s : St) (h : LInv s) : LInv (appRespNones ai s) := by
  unfold appRespNones
  repeat (first | exact h | exact LInv_same h rfl rfl rfl rfl rfl rfl | split)

theorem LInv_pumpAppResp (hcc : Config.appConsumersCatch = true) (s : St) (ai : Nat) (h : LInv s) : LInv (pumpAppResp s ai) := by
  unfold pumpAppResp
  repeat (first | exact h | exact LInv_appRespNones _ _ (LInv_foldl _ (fun s a hs => LInv_appRespStep hcc ai s a hs) _ _ h) | split)

theorem LInv_pumpWriter (s : St) (cid : Nat) (h : LInv s) : LInv (pumpWriter s cid) :=
  LInv_same h (connections_pumpWriter ..) (peerSockets_pumpWriter ..) (halfReady_pumpWriter ..) (socketPeers_pumpWriter ..)
    (wsv_pumpWriter ..) (pwk_pumpWriter ..)

theorem LInv_pumpAll (hk : Config.removeCleansTables = true) (hg : Config.gateClosing = true)
    (hcc : Config.appConsumersCatch = true) (infoOf : AMsg → MsgInfo)
    (s : St) (h : LInv s) : LInv (pumpAll infoOf s) := by
  unfold pumpAll
  dsimp only
  apply LInv_foldl
  · intro s ai hs
    exact LInv_pumpAppResp hcc _ _ (LInv_pumpAppRecv hcc infoOf _ _ hs)
  · apply LInv_foldl
    · intro s c hs
      exact LInv_pumpWriter _ _ (LInv_foldl (fun s (_ : Nat) => pumpReader infoOf s c.id)
        (fun s _ hs => LInv_pumpReader hk hg infoOf s c.id hs) _ s hs)
    · exact h

theorem LInv_settle (hk : Config.removeCleansTables = true) (hr : Config.rejectStopsWorkers = true)
    (hg : Config.gateClosing = true) (hcc : Config.appConsumersCatch = true) (infoOf : AMsg → MsgInfo) (n : Nat) (w : World)
    (h : LInv w.st) : LInv (settle infoOf n w).st := by
  induction n generalizing w with
  | zero => exact h
  | succ n ih =>
    unfold settle
    dsimp only
    have h1 : LInv (pumpAll infoOf (ioIteration w).st) := LInv_pumpAll hk hg hcc infoOf _ (LInv_ioIteration hk hr w h)
    split
    · exact ih _ h1
    · exact h1

theorem LInv_stopFinal (hk : Config.removeCleansTables = true) (s : St) (h : LInv s) : LInv (stopFinal s) := by
  unfold stopFinal
  exact LInv_foldl _ (fun s a hs => LInv_connClose _ _ _ (LInv_closeConnectionSocket hk _ _ _ hs)) _ _ h

theorem LInv_runHandler (infoOf : AMsg → MsgInfo) (s : St) (k : Nat) (h : LInv s) : LInv (runHandler infoOf s k) := by
  unfold runHandler
  repeat (first | exact h | split | dsimp only | lsame h)

end DV.Node
