/-
  `WdInv` (Proofs/NodeWdog.lean) along the receive path, the worker pumps and the
  I/O loop.
-/
import DV.Proofs.NodeWdog
import DV.Model.NodeOps
namespace DV.Node

theorem w_receiveAppRequest (s : St) (cid : Nat) (m : AMsg) (info : MsgInfo) (h : WdInv s) : WdInv (receiveAppRequest s cid m info).1 := by
  unfold receiveAppRequest
  repeat (first
    | w_hyp | w_triv | w_lit | split | dsimp only
    | with_reducible apply w_sendMessage
    | with_reducible apply w_appReceiveRequest)

theorem w_handleByCommand (s : St) (cid : Nat) (m : AMsg) (info : MsgInfo) (h : WdInv s) : WdInv (handleByCommand s cid m info).1 := by
  unfold handleByCommand
  repeat (first
    | w_hyp | w_triv | w_lit | split | dsimp only
    | with_reducible apply w_receiveCer | with_reducible apply w_receiveCea
    | with_reducible apply w_receiveDwr | with_reducible apply w_receiveDwa | with_reducible apply w_receiveDpr
    | with_reducible apply w_receiveDpa | with_reducible apply w_receiveAppRequest | with_reducible apply w_receiveAppAnswer)

theorem w_receiveMessage (s : St) (cid : Nat) (m : AMsg) (info : MsgInfo) (h : WdInv s) : WdInv (receiveMessage s cid m info) := by
  unfold receiveMessage
  dsimp only
  have h1 : WdInv (recordOrigin s cid m info) := w_recordOrigin _ _ _ _ h
  have hb := w_handleByCommand (recordOrigin s cid m info) cid m info h1
  split
  · exact w_crashReader _ _ _ h1
  · split
    · split
      · exact w_sendMessage _ _ _ _ h1
      · exact w_crashReader _ _ _ (w_sendMessage _ _ _ _ h1)
    · split
      · split
        · exact w_sendMessage _ _ _ _ h1
        · exact w_crashReader _ _ _ (w_sendMessage _ _ _ _ h1)
      · split
        · rename_i s' heq
          rw [heq] at hb; exact hb
        · rename_i s' e heq
          rw [heq] at hb
          split
          · exact hb
          · split
            · exact w_sendMessage _ _ _ _ hb
            · exact w_crashReader _ _ _ (w_sendMessage _ _ _ _ hb)

theorem w_dispatchMessage (s : St) (cid : Nat) (m : AMsg) (info : MsgInfo) (h : WdInv s) : WdInv (dispatchMessage s cid m info) := by
  unfold dispatchMessage
  repeat (first | exact h | exact w_receiveMessage s cid m info h | split)

theorem w_pumpReader (infoOf : AMsg → MsgInfo) (s : St) (cid : Nat) (h : WdInv s) : WdInv (pumpReader infoOf s cid) := by
  unfold pumpReader
  split
  · exact h
  · split
    · exact h
    · split
      · exact h
      · dsimp only
        apply w_foldl
        · intro s a hs
          repeat (first | exact hs | exact w_dispatchMessage s cid a (infoOf a) hs | split)
        · exact w_modConn _ _ _ (by tamew) h

theorem w_pumpAll (infoOf : AMsg → MsgInfo) (s : St) (h : WdInv s) : WdInv (pumpAll infoOf s) := by
  unfold pumpAll
  dsimp only
  apply w_foldl
  · intro s ai hs
    exact w_pumpAppResp _ _ (w_pumpAppRecv infoOf _ _ hs)
  · apply w_foldl
    · intro s c hs
      apply w_pumpWriter
      apply w_foldl
      · intro s _ hs; exact w_pumpReader infoOf s c.id hs
      · exact hs
    · exact h

theorem w_handleReadable (w : World) (cid : Nat) (h : WdInv w.st) : WdInv (handleReadable w cid).st := by
  unfold handleReadable
  have hst : (w.popRx cid).1.st = w.st := popRx_st w cid
  split
  · exact h
  · dsimp only
    generalize hr : w.popRx cid = r at *
    obtain ⟨w1, ev⟩ := r
    dsimp only at *
    rw [← hst] at h
    split
    · exact h
    · exact h
    · exact w_connClose _ _ _ (w_closeConnectionSocket _ _ _ h)
    · exact w_connClose _ _ _ (w_closeConnectionSocket _ _ _ h)
    · exact w_modConn _ _ _ (by tamew) h
    · exact w_modConn _ _ _ (by tamew) h

theorem w_ioIteration (w : World) (h : WdInv w.st) : WdInv (ioIteration w).st := by
  unfold ioIteration
  dsimp only
  generalize hW : List.foldl handleWritable _ _ = W
  have hWs : WdInv W.st := by
    rw [← hW]
    apply w_foldlW _ (fun w a hw => w_handleWritable w a hw)
    apply w_foldlW _ (fun w a hw => w_handleReadable w a hw)
    repeat (first
      | exact h
      | with_reducible apply w_handleAccept
      | with_reducible apply w_handleInterrupt
      | split
      | dsimp only)
  exact w_reconnectPeers _ (w_foldl _ (fun s a hs => w_checkTimers s a hs) _ _ hWs)

theorem w_settle (infoOf : AMsg → MsgInfo) (n : Nat) (w : World) (h : WdInv w.st) : WdInv (settle infoOf n w).st := by
  induction n generalizing w with
  | zero => exact h
  | succ n ih =>
    unfold settle
    dsimp only
    have h2 : WdInv ({ ioIteration w with st := pumpAll infoOf (ioIteration w).st } : World).st := w_pumpAll infoOf _ (w_ioIteration w h)
    split
    · exact ih _ h2
    · exact h2

/-- the clock only moves forward: stamps stay in the past -/
theorem w_advance (s : St) (dt : Nat) (h : WdInv s) : WdInv ({ s with now := s.now + dt } : St) := by
  refine ⟨Nat.lt_of_lt_of_le h.1 (Nat.le_add_right _ _), ?_⟩
  intro c hc hst
  have := h.2 c hc hst
  exact ⟨this.1, Nat.le_trans this.2 (Nat.le_add_right _ _)⟩

end DV.Node
