/-
  "Once a peer's connection has been removed its disconnect reason and time stay
  set until it connects again": the invariant `PInv2 s` — for every configured
  peer, `connection = none → lastDisconnect ≠ none → reason ≠ none` — is kept by
  every function of the node (the second half of this file is the text of
  Proofs/NodeSound.lean with the relation replaced).  The peer records are
  written by `_add_peer_connection`, `_assign_peer_connection` (which set a
  connection when they clear the reason), `remove_peer_connection` (which sets
  reason and time when it clears the connection), `receive_dpr` (reason), the
  request counters and `last_connect`.
-/
import DV.Proofs.NodeSound
import DV.Proofs.NodeQ
namespace DV.Node

def Peer.recOk (p : Peer) : Prop := p.connection = none → p.lastDisconnect ≠ none → p.reason ≠ none

def PInv2 (s : St) : Prop := ∀ p ∈ s.peers, p.recOk

theorem p_of_peers {s' s : St} (h2 : s'.peers = s.peers) (h : PInv2 s) : PInv2 s' := by
  unfold PInv2 at *
  rw [h2]; exact h

/-- a literal state whose `peers` are those of `s'` -/
theorem p_mk' (s' : St) {cfg now apps routes conns connections peerSockets socketPeers halfReady appWaiting peerWaiting
    originWaiting sentAnswers e2e nextHbhSeed stopping started pipe dialPlan appRequests delivered inProgress tapps
    deferred crashed outs} (h : PInv2 s') :
    PInv2 (St.mk cfg now s'.peers apps routes conns connections peerSockets socketPeers halfReady appWaiting peerWaiting
      originWaiting sentAnswers e2e nextHbhSeed stopping started pipe dialPlan appRequests delivered inProgress tapps
      deferred crashed outs) := h

open Lean Elab Tactic Meta in
elab "guard_st_literal_p" : tactic => do
  let g ← instantiateMVars (← getMainTarget)
  match g.getAppFnArgs with
  | (``DV.Node.PInv2, #[st]) => unless st.isAppOf ``DV.Node.St.mk do throwError "not a literal state"
  | _ => throwError "not a goal of the form PInv2 _"

macro "p_hyp" : tactic => `(tactic| with_reducible assumption)
macro "p_lit" : tactic => `(tactic| (guard_st_literal_p; with_reducible apply p_mk'))

/-! ### record updates -/

theorem p_modPeer (s : St) (i : Nat) (f : Peer → Peer) (hf : ∀ p, p.recOk → (f p).recOk) (h : PInv2 s) : PInv2 (s.modPeer i f) := by
  intro p' hp'
  simp only [St.modPeer, List.mem_mapIdx] at hp'
  obtain ⟨k, hk, rfl⟩ := hp'
  split
  · exact hf _ (h _ (List.getElem_mem hk))
  · exact h _ (List.getElem_mem hk)

/-- discharges the side condition of `p_modPeer` for a literal record update -/
macro "tamep2" : tactic => `(tactic| (intro p hp; unfold Peer.recOk at hp ⊢; dsimp only; first | exact hp | (intro h1 h2; first | (simp at h1; done) | (cases hc : p.connection <;> cases hr : p.reason <;> simp_all; done))))

theorem p_modConn (s : St) (i : Nat) (f : Conn → Conn) (h : PInv2 s) : PInv2 (s.modConn i f) := h
theorem p_modTApp (s : St) (i : Nat) (f : TApp → TApp) (h : PInv2 s) : PInv2 (s.modTApp i f) := h
theorem p_modApp (s : St) (i : Nat) (f : App → App) (h : PInv2 s) : PInv2 (s.modApp i f) := h
theorem p_emit (s : St) (o : Out) (h : PInv2 s) : PInv2 (s.emit o) := h
theorem p_demand (s : St) (c : Nat) (h : PInv2 s) : PInv2 (demandAttention s c) := h
theorem p_setCrashed (s : St) (n : Nat) (h : PInv2 s) : PInv2 ({ s with crashed := n } : St) := h

macro "p_triv" : tactic => `(tactic| first
  | with_reducible apply p_modTApp | with_reducible apply p_modApp | with_reducible apply p_modConn
  | with_reducible apply p_emit | with_reducible apply p_demand)

theorem p_connClose (s : St) (cid : Nat) (b : Bool) (h : PInv2 s) : PInv2 (connClose s cid b) := by
  unfold connClose
  split <;> exact h

/-- removing a connection: when the peer's record is cleared, reason and time are set -/
theorem p_removePeerConnection (s : St) (cid : Nat) (r : Reason) (h : PInv2 s) : PInv2 (removePeerConnection s cid r) := by
  unfold removePeerConnection
  cases hc : s.conn? cid with
  | none => exact h
  | some c =>
    simp only []
    have key : ∀ (s1 : St) (i : Nat), PInv2 s1 → PInv2 (s1.modPeer i fun p =>
        { p with connection := none, lastDisconnect := some s1.now,
                 reason := match p.reason with | none => some r | r => r }) := by
      intro s1 i h1
      apply p_modPeer _ _ _ _ h1
      intro p _
      unfold Peer.recOk
      dsimp only
      intro _ _
      cases p.reason <;> simp
    repeat (first
      | p_hyp | p_lit | split | dsimp only
      | exact p_of_peers rfl h
      | (apply p_of_peers rfl; apply key; exact p_of_peers rfl h)
      | (apply p_of_peers rfl; exact p_of_peers rfl h))

theorem p_closeConnectionSocket (s : St) (cid : Nat) (r : Reason) (h : PInv2 s) : PInv2 (closeConnectionSocket s cid r) := by
  unfold closeConnectionSocket
  apply p_removePeerConnection
  split
  · exact p_connClose _ _ _ h
  · exact h

theorem p_recordAnswerState (s : St) (cid : Nat) (m : AMsg) (h : PInv2 s) : PInv2 (recordAnswerState s cid m) := by
  refine p_of_peers ?_ h
  unfold recordAnswerState; repeat (first | rfl | split | dsimp only)

theorem p_sendMessage (s : St) (cid : Nat) (m : AMsg) (b : Bool) (h : PInv2 s) : PInv2 (sendMessage s cid m b).1 := by
  unfold sendMessage
  split
  · exact h
  · dsimp only
    split
    · exact p_recordAnswerState _ _ _ (p_of_peers rfl h)
    · exact h

theorem p_foldl {α : Type} (f : St → α → St) (hf : ∀ s a, PInv2 s → PInv2 (f s a)) (l : List α) (s : St) (h : PInv2 s) :
    PInv2 (l.foldl f s) := by
  induction l generalizing s with
  | nil => exact h
  | cons a l ih => exact ih _ (hf s a h)

theorem p_foldlW {α : Type} (f : World → α → World) (hf : ∀ w a, PInv2 w.st → PInv2 (f w a).st) (l : List α) (w : World)
    (h : PInv2 w.st) : PInv2 (l.foldl f w).st := by
  induction l generalizing w with
  | nil => exact h
  | cons a l ih => exact ih _ (hf w a h)

theorem p_addPeerConnection (s : St) (c : Conn) (hq : True) (h : PInv2 s) : PInv2 (addPeerConnection s c).1 := by
  unfold addPeerConnection
  dsimp only
  repeat (first | p_hyp | p_triv | p_lit | split | dsimp only | with_reducible apply p_modPeer _ _ _ (by tamep2) | exact p_of_peers rfl h)

theorem p_routeAnswer (s s' : St) (m : AMsg) (cid : Nat) (hr : routeAnswer s m = .ok (s', cid)) (h : PInv2 s) : PInv2 s' := by
  unfold routeAnswer at hr
  simp only [] at hr
  repeat (first | contradiction | split at hr)
  all_goals (first | contradiction | (injection hr with hr; injection hr with h1 h2; subst h1; exact p_of_peers rfl h))

theorem p_routeAnswerSideEffect (s : St) (m : AMsg) (h : PInv2 s) : PInv2 (routeAnswerSideEffect s m) := by
  unfold routeAnswerSideEffect
  split
  · exact h
  · exact p_of_peers rfl h

/-- the composition tactic: peel known functions off the goal `f (g (… s)) ≼ s0` -/
macro "p_tac" : tactic => `(tactic| repeat (first
  | p_hyp
  | p_triv
  | p_lit
  | split
  | dsimp only
  | with_reducible apply p_modPeer _ _ _ (by tamep2)
  | with_reducible apply p_connClose
  | with_reducible apply p_removePeerConnection
  | with_reducible apply p_closeConnectionSocket
  | with_reducible apply p_recordAnswerState
  | with_reducible apply p_sendMessage))

theorem p_assignPeerConnection (s : St) (cid : Nat) (h : PInv2 (s)) : PInv2 (assignPeerConnection s cid) := by
  unfold assignPeerConnection; p_tac

theorem p_flagReady (s : St) (cid : Nat) (h : PInv2 (s)) : PInv2 (flagConnectionAsReady s cid) := by
  unfold flagConnectionAsReady
  exact p_of_peers rfl (p_of_peers rfl h)

theorem p_cerNameAndElect (s : St) (cid : Nat) (hn : String) (h : PInv2 (s)) : PInv2 ((cerNameAndElect s cid hn).1) := by
  unfold cerNameAndElect
  have hf : ∀ (l : List Conn) (s : St), PInv2 s → PInv2 (l.foldl (fun s o => connClose s o.id true) s) :=
    fun l s hs => p_foldl (fun s (o : Conn) => connClose s o.id true) (fun s a hs => p_connClose s a.id true hs) l s hs
  dsimp only
  repeat (first | p_hyp | p_triv | p_lit | split | with_reducible apply hf | with_reducible apply p_modPeer _ _ _ (by tamep2))

macro "p_tac2" : tactic => `(tactic| repeat (first
  | p_hyp
  | p_triv
  | p_lit
  | split
  | dsimp only
  | with_reducible apply p_modPeer _ _ _ (by tamep2)
  | with_reducible apply p_connClose
  | with_reducible apply p_removePeerConnection
  | with_reducible apply p_closeConnectionSocket
  | with_reducible apply p_recordAnswerState
  | with_reducible apply p_sendMessage
  | with_reducible apply p_assignPeerConnection
  | with_reducible apply p_flagReady
  | with_reducible apply p_cerNameAndElect))

theorem p_receiveCer (s : St) (cid : Nat) (m : AMsg) (info : MsgInfo) (h : PInv2 (s)) : PInv2 ((receiveCer s cid m info).1) := by
  unfold receiveCer; p_tac2

theorem p_receiveCea (s : St) (cid : Nat) (m : AMsg) (h : PInv2 (s)) : PInv2 ((receiveCea s cid m).1) := by
  unfold receiveCea; p_tac2

theorem p_receiveDpr (s : St) (cid : Nat) (m : AMsg) (info : MsgInfo) (h : PInv2 (s)) : PInv2 ((receiveDpr s cid m info).1) := by
  unfold receiveDpr; p_tac2

theorem p_receiveDpa (s : St) (cid : Nat) (h : PInv2 (s)) : PInv2 (receiveDpa s cid) := by
  unfold receiveDpa; p_tac2

theorem p_receiveDwa (s : St) (cid : Nat) (h : PInv2 (s)) : PInv2 (receiveDwa s cid) := by
  unfold receiveDwa; p_tac2

theorem p_receiveDwr (s : St) (cid : Nat) (m : AMsg) (info : MsgInfo) (h : PInv2 (s)) : PInv2 ((receiveDwr s cid m info).1) := by
  unfold receiveDwr; p_tac2

theorem p_appReceiveRequest (s : St) (ai : Nat) (m : AMsg) (h : PInv2 (s)) : PInv2 ((appReceiveRequest s ai m).1) := by
  unfold appReceiveRequest; p_tac2

theorem p_appReceiveAnswer (s : St) (ai : Nat) (m : AMsg) (h : PInv2 (s)) : PInv2 (appReceiveAnswer s ai m) := by
  unfold appReceiveAnswer; p_tac2

theorem p_receiveAppAnswer (s : St) (m : AMsg) (h : PInv2 (s)) : PInv2 (receiveAppAnswer s m) := by
  unfold receiveAppAnswer
  repeat (first | p_hyp | p_triv | p_lit | split | with_reducible apply p_appReceiveAnswer)

theorem p_recordOrigin (s : St) (cid : Nat) (m : AMsg) (info : MsgInfo) (h : PInv2 (s)) : PInv2 (recordOrigin s cid m info) := by
  unfold recordOrigin; p_tac2

theorem p_crashReader (s : St) (cid : Nat) (e : String) (h : PInv2 (s)) : PInv2 (crashReader s cid e) := by
  unfold crashReader
  exact p_of_peers rfl (p_of_peers rfl (p_of_peers rfl h))

theorem p_sendCer (s : St) (cid : Nat) (h : PInv2 (s)) : PInv2 (sendCer s cid) := by
  unfold sendCer; p_tac2

theorem p_modConn_stamp (s : St) (i : Nat) (h : PInv2 s) :
    PInv2 (s.modConn i fun x => { x with state := if x.state.isReady then .waitDwa else x.state, lastDwr := s.now }) := h

theorem p_sendDwr (s : St) (cid : Nat) (h : PInv2 s) : PInv2 (sendDwr s cid) := by
  unfold sendDwr
  split
  · exact h
  · dsimp only
    apply p_modConn_stamp
    apply p_sendMessage
    apply p_modConn _ _ _
    exact p_of_peers rfl h

theorem p_sendDpr (s : St) (cid : Nat) (h : PInv2 (s)) : PInv2 (sendDpr s cid) := by
  unfold sendDpr; p_tac2

macro "p_tac3" : tactic => `(tactic| repeat (first
  | p_hyp
  | p_triv
  | p_lit
  | split
  | dsimp only
  | with_reducible apply p_modPeer _ _ _ (by tamep2)
  | with_reducible apply p_connClose
  | with_reducible apply p_removePeerConnection
  | with_reducible apply p_closeConnectionSocket
  | with_reducible apply p_recordAnswerState
  | with_reducible apply p_sendMessage
  | with_reducible apply p_sendCer
  | with_reducible apply p_sendDwr
  | with_reducible apply p_sendDpr))

theorem p_checkTimers (s : St) (cid : Nat) (h : PInv2 (s)) : PInv2 (checkTimers s cid) := by
  unfold checkTimers; p_tac3

theorem p_connectToPeer (s : St) (pi : Nat) (h : PInv2 (s)) : PInv2 (connectToPeer s pi) := by
  unfold connectToPeer
  repeat (first
    | p_hyp
    | p_triv
    | p_lit
    | split
    | dsimp only
    | with_reducible apply p_modPeer _ _ _ (by tamep2)
    | with_reducible apply p_removePeerConnection
    | with_reducible apply p_closeConnectionSocket
    | with_reducible apply p_sendCer
    | apply p_addPeerConnection _ _ trivial)

theorem p_reconnectStep (s : St) (pi : Nat) (h : PInv2 (s)) : PInv2 (reconnectStep s pi) := by
  unfold reconnectStep
  repeat (first | p_hyp | p_triv | p_lit | split | with_reducible apply p_connectToPeer)

theorem p_reconnectPeers (s : St) (h : PInv2 (s)) : PInv2 (reconnectPeers s) := by
  unfold reconnectPeers
  split
  · exact h
  · exact p_foldl _ (fun s a hs => p_reconnectStep s a hs) _ _ h

theorem p_handleInterrupt (s : St) (h : PInv2 (s)) : PInv2 (handleInterrupt s) := by
  unfold handleInterrupt; p_tac3

theorem p_handleAccept (s : St) (h : PInv2 (s)) : PInv2 (handleAccept s) := by
  unfold handleAccept
  dsimp only
  exact p_addPeerConnection _ _ trivial (p_of_peers rfl h)

theorem p_connectResult (w : World) (cid : Nat) (c : Conn) (h : PInv2 (w.st)) : PInv2 ((connectResult w cid c).1.st) := by
  unfold connectResult; p_tac3

theorem p_flushWritable (w : World) (cid : Nat) (h : PInv2 (w.st)) : PInv2 ((flushWritable w cid).st) := by
  unfold flushWritable
  have hf : ∀ (l : List AMsg) (s : St), PInv2 s → PInv2 (l.foldl (fun s m => s.emit (.wrote cid m)) s) :=
    fun l s hs => p_foldl (fun s m => s.emit (.wrote cid m)) (fun s a hs => hs) l s hs
  repeat (first
    | p_hyp
    | p_triv
    | p_lit
    | split
    | dsimp only
    | simp only [popTx_st]
    | with_reducible apply p_modPeer _ _ _ (by tamep2)
    | with_reducible apply p_connClose
    | with_reducible apply p_closeConnectionSocket
    | with_reducible apply hf)

theorem p_handleWritable (w : World) (cid : Nat) (h : PInv2 (w.st)) : PInv2 ((handleWritable w cid).st) := by
  unfold handleWritable
  repeat (first | p_hyp | p_triv | p_lit | split | dsimp only | with_reducible apply p_flushWritable | with_reducible apply p_connectResult)

theorem p_pumpWriter (s : St) (cid : Nat) (h : PInv2 (s)) : PInv2 (pumpWriter s cid) := by
  unfold pumpWriter
  repeat (first | p_hyp | p_triv | p_lit | split | (apply p_foldl; intro s a hs; exact p_of_peers rfl (p_of_peers rfl hs)))

/-! ### applications -/

theorem p_sendBuiltAnswer (s : St) (a : AMsg) (t : Bool) (h : PInv2 (s)) : PInv2 ((sendBuiltAnswer s a t).1) := by
  unfold sendBuiltAnswer
  split
  · exact p_routeAnswerSideEffect _ _ h
  · rename_i hr
    exact p_sendMessage _ _ _ _ (p_routeAnswer _ _ _ _ hr h)


theorem p_appRecvStep (infoOf : AMsg → MsgInfo) (ai mx : Nat) (s : St) (m : AMsg) (h : PInv2 (s)) : PInv2 (appRecvStep infoOf ai mx s m) := by
  unfold appRecvStep
  repeat (first | p_hyp | p_triv | p_lit | split | dsimp only | with_reducible apply p_emit | with_reducible apply p_sendBuiltAnswer | with_reducible apply p_setCrashed)

theorem p_pumpAppRecv (infoOf : AMsg → MsgInfo) (s : St) (ai : Nat) (h : PInv2 (s)) : PInv2 (pumpAppRecv infoOf s ai) := by
  unfold pumpAppRecv
  repeat (first | p_hyp | p_triv | p_lit | split | exact p_foldl _ (fun s a hs => p_appRecvStep infoOf ai _ s a hs) _ _ h)

theorem p_appRespStep (ai : Nat) (s : St) (m : AMsg) (h : PInv2 (s)) : PInv2 (appRespStep ai s m) := by
  unfold appRespStep
  repeat (first | p_hyp | p_triv | p_lit | split | dsimp only | with_reducible apply p_emit | with_reducible apply p_sendBuiltAnswer | with_reducible apply p_setCrashed)

theorem p_appRespNones (ai : Nat) (s : St) (h : PInv2 (s)) : PInv2 (appRespNones ai s) := by
  unfold appRespNones
  repeat (first | p_hyp | p_triv | p_lit | split | with_reducible apply p_modTApp)

theorem p_pumpAppResp (s : St) (ai : Nat) (h : PInv2 (s)) : PInv2 (pumpAppResp s ai) := by
  unfold pumpAppResp
  repeat (first | p_hyp | p_triv | p_lit | split | (apply p_appRespNones; exact p_foldl _ (fun s a hs => p_appRespStep ai s a hs) _ _ h))

theorem p_runHandler (infoOf : AMsg → MsgInfo) (s : St) (k : Nat) (h : PInv2 (s)) : PInv2 (runHandler infoOf s k) := by
  unfold runHandler
  repeat (first | p_hyp | p_triv | p_lit | split | dsimp only | with_reducible apply p_modTApp | with_reducible apply p_emit )

theorem p_appSendAnswer (s : St) (ai : Nat) (req : AMsg) (info : MsgInfo) (rc : Option Nat) (h : PInv2 (s)) : PInv2 (appSendAnswer s ai req info rc) := by
  unfold appSendAnswer
  dsimp only
  split
  · exact p_emit _ _ (p_routeAnswerSideEffect _ _ h)
  · rename_i hr
    split <;> exact p_emit _ _ (p_sendMessage _ _ _ _ (p_routeAnswer _ _ _ _ hr h))

theorem p_routeRequest (s s' : St) (ai : Nat) (m m' : AMsg) (info : MsgInfo) (cid : Nat)
    (hr : routeRequest s ai m info = .ok (s', cid, m')) (h : PInv2 (s)) : PInv2 (s') := by
  unfold routeRequest at hr
  simp only [] at hr
  repeat (first | contradiction | split at hr)
  all_goals (injection hr with hr; injection hr with h1 h2; subst h1)
  all_goals repeat (first | p_hyp | p_triv | p_lit | p_lit | split | dsimp only | with_reducible apply p_modPeer _ _ _ (by tamep2))

theorem p_appSendRequestBegin (s : St) (ai : Nat) (m : AMsg) (info : MsgInfo) (h : PInv2 (s)) : PInv2 ((appSendRequestBegin s ai m info).1) := by
  unfold appSendRequestBegin
  dsimp only
  split
  · split <;> exact p_of_peers rfl h
  · rename_i hr
    apply p_sendMessage
    apply p_modApp
    refine p_routeRequest _ _ _ _ _ _ _ hr ?_
    split <;> exact p_of_peers rfl h

theorem p_appSendRequestEnd (s : St) (ai : Nat) (hbh : Nat) (h : PInv2 (s)) : PInv2 ((appSendRequestEnd s ai hbh).1) := h

theorem p_stopBegin (s : St) (f : Bool) (h : PInv2 (s)) : PInv2 (stopBegin s f) := by
  unfold stopBegin
  dsimp only
  split
  · exact p_of_peers rfl h
  · apply p_foldl
    · intro s a hs
      repeat (first | p_hyp | p_triv | p_lit | split | with_reducible apply p_sendDpr)
    · exact p_of_peers rfl h

theorem p_stopFinal (s : St) (h : PInv2 (s)) : PInv2 (stopFinal s) := by
  unfold stopFinal
  apply p_foldl
  · intro s a hs
    exact p_connClose _ _ _ (p_closeConnectionSocket _ _ _ hs)
  · exact h

end DV.Node
