/-
  Safety of the write path for the accepted program (`goodProg`): under every
  interleaving of queueing threads, writer and I/O loop, every pattern of
  partial writes and soft / hard write errors, the bytes accepted by the socket,
  followed by what is still buffered, in hand or queued, are exactly the
  encodings of the queued messages in queueing order.
-/
import DV.Model.WritePath
namespace DV.WP
set_option linter.unusedSimpArgs false

def flat (q : List (Option Bytes)) : Bytes := (q.map (·.getD [])).flatten

/-- the message the writer has taken from the queue and not yet appended -/
def inflight (s : S) : Bytes := if s.wpath.any (·.op == .append) then s.wmsg.getD [] else []

/-- bytes the socket has accepted that are still at the front of the buffer -/
def pendingRemove (s : S) : Nat := if s.lpath.any (·.op == .remove) then s.ln.getD 0 else 0

def wLock : WAtom := ⟨.lock, true⟩
def wAppend : WAtom := ⟨.append, false⟩
def wSignal : WAtom := ⟨.signal, false⟩

structure Inv (s : S) : Prop where
  bytes : s.sent ++ s.buf.drop (pendingRemove s) ++ inflight s ++ flat s.q = s.expect
  bound : pendingRemove s ≤ s.buf.length
  wshape : s.wpath = [] ∨ (∃ e, s.wmsg = some e ∧ (s.wpath = [wLock, wAppend, wSignal] ∨ s.wpath = [wAppend, wSignal])) ∨
           s.wpath = [wSignal] ∨ (s.wmsg = none ∧ (s.wpath = [wLock, wAppend] ∨ s.wpath = [wAppend]))
  lshape : s.lpath = [] ∨ s.lpath = [⟨.testEmpty, false⟩, ⟨.send, false⟩] ∨ (s.lpath = [⟨.send, false⟩] ∧ s.buf ≠ []) ∨
           ((s.lpath = goodProg.lOk ∨ s.lpath = goodProg.lOk.tail) ∧ ∃ n, s.ln = some n ∧ n ≤ s.buf.length) ∨
           s.lpath = [⟨.readLen, true⟩, ⟨.testClosing, false⟩] ∨ s.lpath = [⟨.testClosing, false⟩] ∨
           s.lpath = [⟨.close, false⟩]
  alive : s.crashed = false

theorem flat_append (q : List (Option Bytes)) (e : Option Bytes) : flat (q ++ [e]) = flat q ++ e.getD [] := by
  simp [flat]

theorem flat_cons (e : Option Bytes) (q : List (Option Bytes)) : flat (e :: q) = e.getD [] ++ flat q := by
  simp [flat]

@[simp] theorem releaseIf_fields (s : S) (w : Nat) (k : Bool) :
    (releaseIf s w k).q = s.q ∧ (releaseIf s w k).buf = s.buf ∧ (releaseIf s w k).sent = s.sent ∧
    (releaseIf s w k).wpath = s.wpath ∧ (releaseIf s w k).wmsg = s.wmsg ∧ (releaseIf s w k).lpath = s.lpath ∧
    (releaseIf s w k).ln = s.ln ∧ (releaseIf s w k).expect = s.expect ∧ (releaseIf s w k).crashed = s.crashed ∧
    (releaseIf s w k).closed = s.closed := by
  unfold releaseIf
  split
  · simp
  · split <;> simp

/-- a change that leaves every field of the invariant alone -/
theorem Inv.congr {s s' : S} (h : Inv s) (hq : s'.q = s.q) (hb : s'.buf = s.buf) (hs : s'.sent = s.sent)
    (hw : s'.wpath = s.wpath) (hm : s'.wmsg = s.wmsg) (hl : s'.lpath = s.lpath) (hn : s'.ln = s.ln)
    (he : s'.expect = s.expect) (hc : s'.crashed = s.crashed) : Inv s' := by
  have hi : inflight s' = inflight s := by simp [inflight, hw, hm]
  have hp : pendingRemove s' = pendingRemove s := by simp [pendingRemove, hl, hn]
  refine ⟨?_, ?_, ?_, ?_, ?_⟩
  · rw [hs, hb, hp, hi, hq, he]; exact h.bytes
  · rw [hp, hb]; exact h.bound
  · rw [hw, hm]; exact h.wshape
  · rw [hl, hn, hb]; exact h.lshape
  · rw [hc]; exact h.alive

theorem inv_init : Inv {} := by
  refine ⟨by simp [pendingRemove, inflight, flat], by simp [pendingRemove], Or.inl rfl, Or.inl rfl, rfl⟩

theorem inv_put (s : S) (e : Option Bytes) (h : Inv s) : Inv (step goodProg s (.put e)) := by
  have hi : inflight { s with q := s.q ++ [e], expect := s.expect ++ e.getD [] } = inflight s := rfl
  have hp : pendingRemove { s with q := s.q ++ [e], expect := s.expect ++ e.getD [] } = pendingRemove s := rfl
  refine ⟨?_, h.bound, h.wshape, h.lshape, h.alive⟩
  show s.sent ++ s.buf.drop (pendingRemove s) ++ inflight s ++ flat (s.q ++ [e]) = s.expect ++ e.getD []
  rw [flat_append, ← h.bytes]
  simp [List.append_assoc]

theorem any_append_lock : ([wLock, wAppend, wSignal].any (·.op == .append)) = true := by decide
theorem any_append_2 : ([wAppend, wSignal].any (·.op == .append)) = true := by decide
theorem any_append_sig : ([wSignal].any (·.op == .append)) = false := by decide
theorem any_append_f1 : ([wLock, wAppend].any (·.op == .append)) = true := by decide
theorem any_append_f2 : ([wAppend].any (·.op == .append)) = true := by decide

theorem inv_w (s : S) (h : Inv s) : Inv (step goodProg s .w) := by
  show Inv (stepW goodProg s)
  rcases h.wshape with hw | ⟨e, hm, hw | hw⟩ | hw | ⟨hm, hw | hw⟩
  · -- idle: take the next message
    cases hq : s.q with
    | nil => simp only [stepW, hw, hq]; exact h
    | cons e q' =>
      cases e with
      | none =>
        have : stepW goodProg s = releaseIf { s with wmsg := none, q := q', wpath := [wLock, wAppend] } 0 false := by
          simp [stepW, hw, hq, goodProg, wLock, wAppend]
        rw [this]
        have hb := h.bytes
        refine ⟨?_, ?_, ?_, ?_, ?_⟩
        · simp only [releaseIf_fields, pendingRemove, inflight, any_append_f1, if_true, Option.getD_none, List.append_nil]
          rw [← hb]
          simp [inflight, hw, pendingRemove, hq, flat_cons]
        · simp only [releaseIf_fields, pendingRemove]; exact h.bound
        · simp [releaseIf_fields]
        · simp only [releaseIf_fields]; exact h.lshape
        · simp only [releaseIf_fields]; exact h.alive
      | some e =>
        have : stepW goodProg s = releaseIf { s with wmsg := some e, q := q', wpath := [wLock, wAppend, wSignal] } 0 false := by
          simp [stepW, hw, hq, goodProg, wLock, wAppend, wSignal]
        rw [this]
        have hb := h.bytes
        refine ⟨?_, ?_, ?_, ?_, ?_⟩
        · simp only [releaseIf_fields, pendingRemove, inflight, any_append_lock, if_true, Option.getD_some]
          rw [← hb]
          simp [inflight, hw, pendingRemove, hq, flat_cons, List.append_assoc]
        · simp only [releaseIf_fields, pendingRemove]; exact h.bound
        · simp [releaseIf_fields]
        · simp only [releaseIf_fields]; exact h.lshape
        · simp only [releaseIf_fields]; exact h.alive
  · -- `with self.write_lock:`
    simp only [stepW, hw, wLock]
    split
    · refine ⟨?_, h.bound, Or.inr (Or.inl ⟨e, hm, Or.inr rfl⟩), h.lshape, h.alive⟩
      have hb := h.bytes
      simp only [inflight, hw, any_append_lock, any_append_2, if_true, pendingRemove] at hb ⊢
      exact hb
    · exact h
  · -- `self._write_buffer += new_msg.as_bytes()`
    have : stepW goodProg s = releaseIf { s with buf := s.buf ++ e, wpath := [wSignal] } 0 false := by
      simp [stepW, hw, hm, wAppend]
    rw [this]
    have hb := h.bytes
    have hbd := h.bound
    refine ⟨?_, ?_, ?_, ?_, ?_⟩
    · simp only [releaseIf_fields, pendingRemove, inflight, any_append_sig, List.append_nil] at hb ⊢
      rw [← hb]
      simp only [inflight, hw, any_append_2, if_true, hm, Option.getD_some, pendingRemove]
      rw [List.drop_append_of_le_length (by simpa [pendingRemove] using hbd)]
      simp [List.append_assoc]
    · simp only [releaseIf_fields, pendingRemove, List.length_append] at hbd ⊢; omega
    · simp [releaseIf_fields]
    · simp only [releaseIf_fields]
      rcases h.lshape with a | a | a | ⟨a, n, hn, hle⟩ | a | a | a
      · exact Or.inl a
      · exact Or.inr (Or.inl a)
      · exact Or.inr (Or.inr (Or.inl ⟨a.1, by simp [a.2]⟩))
      · exact Or.inr (Or.inr (Or.inr (Or.inl ⟨a, n, hn, by simp only [List.length_append]; omega⟩)))
      · exact Or.inr (Or.inr (Or.inr (Or.inr (Or.inl a))))
      · exact Or.inr (Or.inr (Or.inr (Or.inr (Or.inr (Or.inl a)))))
      · exact Or.inr (Or.inr (Or.inr (Or.inr (Or.inr (Or.inr a)))))
    · simp only [releaseIf_fields]; exact h.alive
  · -- `self.demand_attention()`
    have : stepW goodProg s = releaseIf { s with pipe := s.pipe + 1, wpath := [] } 0 false := by
      simp [stepW, hw, wSignal]
    rw [this]
    have hb := h.bytes
    refine ⟨?_, ?_, Or.inl (by simp only [releaseIf_fields]), ?_, ?_⟩
    · simp only [releaseIf_fields, pendingRemove, inflight, hw, any_append_sig, List.any_nil] at hb ⊢
      exact hb
    · simp only [releaseIf_fields, pendingRemove]; exact h.bound
    · simp only [releaseIf_fields]; exact h.lshape
    · simp only [releaseIf_fields]; exact h.alive
  · -- a message that cannot be encoded: lock …
    simp only [stepW, hw, wLock]
    split
    · refine ⟨?_, h.bound, Or.inr (Or.inr (Or.inr ⟨hm, Or.inr rfl⟩)), h.lshape, h.alive⟩
      have hb := h.bytes
      simp only [inflight, hw, any_append_f1, any_append_f2, if_true, pendingRemove] at hb ⊢
      exact hb
    · exact h
  · -- … `as_bytes()` raises: nothing is stored, the message is dropped alone
    have : stepW goodProg s = releaseIf { s with wpath := [] } 0 false := by
      simp [stepW, hw, hm, wAppend]
    rw [this]
    have hb := h.bytes
    refine ⟨?_, ?_, Or.inl (by simp only [releaseIf_fields]), ?_, ?_⟩
    · simp only [releaseIf_fields, pendingRemove, inflight, hw, any_append_f2, if_true, hm, Option.getD_none, List.any_nil] at hb ⊢
      simpa using hb
    · simp only [releaseIf_fields, pendingRemove]; exact h.bound
    · simp only [releaseIf_fields]; exact h.lshape
    · simp only [releaseIf_fields]; exact h.alive

theorem inv_finishL (s : S) (h : Inv s) : Inv (finishL s) := by
  unfold finishL
  split
  · rename_i he
    have hl : s.lpath = [] := by simpa using he
    exact h.congr rfl rfl rfl rfl rfl (by simp [endIter, hl]) rfl rfl rfl
  · exact h

theorem any_remove_ok : (goodProg.lOk.any (·.op == .remove)) = true := by decide
theorem any_remove_ok_tail : (goodProg.lOk.tail.any (·.op == .remove)) = true := by decide

def LShape (s : S) : Prop :=
  s.lpath = [] ∨ s.lpath = [⟨.testEmpty, false⟩, ⟨.send, false⟩] ∨ (s.lpath = [⟨.send, false⟩] ∧ s.buf ≠ []) ∨
  ((s.lpath = goodProg.lOk ∨ s.lpath = goodProg.lOk.tail) ∧ ∃ n, s.ln = some n ∧ n ≤ s.buf.length) ∨
  s.lpath = [⟨.readLen, true⟩, ⟨.testClosing, false⟩] ∨ s.lpath = [⟨.testClosing, false⟩] ∨
  s.lpath = [⟨.close, false⟩]

/-- a step of the I/O loop: queue, writer state and ghost unchanged -/
theorem Inv.lchange {s s' : S} (h : Inv s) (hq : s'.q = s.q) (hw : s'.wpath = s.wpath) (hm : s'.wmsg = s.wmsg)
    (he : s'.expect = s.expect) (hc : s'.crashed = false)
    (hbytes : s'.sent ++ s'.buf.drop (pendingRemove s') = s.sent ++ s.buf.drop (pendingRemove s))
    (hbound : pendingRemove s' ≤ s'.buf.length) (hshape : LShape s') : Inv s' := by
  have hi : inflight s' = inflight s := by simp [inflight, hw, hm]
  refine ⟨?_, hbound, ?_, hshape, hc⟩
  · rw [hbytes, hi, hq, he]; exact h.bytes
  · rw [hw, hm]; exact h.wshape

theorem inv_l (s : S) (o : SendOutcome) (h : Inv s) : Inv (step goodProg s (.l o)) := by
  show Inv (stepL goodProg s o)
  have hal := h.alive
  rcases h.lshape with hl | hl | ⟨hl, hne⟩ | ⟨hl | hl, n, hn, hle⟩ | hl | hl | hl
  · -- start of an iteration
    have hp : pendingRemove s = 0 := by simp [pendingRemove, hl]
    unfold stepL
    rw [if_neg (by simp [hal] : ¬ s.crashed = true)]
    simp only [hl, goodProg]
    apply inv_finishL
    split
    · exact h.lchange rfl rfl rfl rfl hal (by rw [hp]; simp [pendingRemove]) (by simp [pendingRemove]) (Or.inr (Or.inl rfl))
    · exact h.lchange rfl rfl rfl rfl hal (by rw [hp]; simp [pendingRemove]) (by simp [pendingRemove]) (Or.inl rfl)
  · -- `if len(conn.write_buffer) == 0:`
    have hp : pendingRemove s = 0 := by simp [pendingRemove, hl]
    unfold stepL
    rw [if_neg (by simp [hal] : ¬ s.crashed = true)]
    simp only [hl]
    apply inv_finishL
    split
    · exact h.lchange rfl rfl rfl rfl hal (by rw [hp]; simp [pendingRemove]) (by simp [pendingRemove]) (Or.inl rfl)
    · rename_i hne
      refine h.lchange (by simp) (by simp) (by simp) (by simp) (by simpa using hal) (by rw [hp]; simp [pendingRemove]) (by simp [pendingRemove]) ?_
      exact Or.inr (Or.inr (Or.inl ⟨by simp, by simpa using hne⟩))
  · -- `sent_bytes = wsock.send(conn.write_buffer)`
    have hp : pendingRemove s = 0 := by simp [pendingRemove, hl]
    have hpos : 1 ≤ s.buf.length := List.length_pos_iff.mpr hne
    cases o with
    | accept k =>
      unfold stepL
      rw [if_neg (by simp [hal] : ¬ s.crashed = true)]
      simp only [hl]
      apply inv_finishL
      have hnle : max 1 (min k s.buf.length) ≤ s.buf.length := by omega
      refine h.lchange rfl rfl rfl rfl hal ?_ ?_ (Or.inr (Or.inr (Or.inr (Or.inl ⟨Or.inl rfl, _, rfl, hnle⟩))))
      · simp only [pendingRemove, any_remove_ok, if_true, Option.getD_some]
        have : (if s.lpath.any (·.op == .remove) then s.ln.getD 0 else 0) = 0 := hp
        rw [this, List.drop_zero, List.append_assoc, List.take_append_drop]
      · simpa [pendingRemove, any_remove_ok] using hnle
    | soft =>
      unfold stepL
      rw [if_neg (by simp [hal] : ¬ s.crashed = true)]
      simp only [hl]
      apply inv_finishL
      exact h.lchange rfl rfl rfl rfl hal (by rw [hp]; simp [pendingRemove, goodProg]) (by simp [pendingRemove, goodProg]) (Or.inl rfl)
    | hard =>
      unfold stepL
      rw [if_neg (by simp [hal] : ¬ s.crashed = true)]
      simp only [hl]
      apply inv_finishL
      exact h.lchange rfl rfl rfl rfl hal (by rw [hp]; simp [pendingRemove, goodProg]) (by simp [pendingRemove, goodProg])
        (Or.inr (Or.inr (Or.inr (Or.inr (Or.inr (Or.inr rfl))))))
  · -- `with conn.write_lock:`
    have hp : pendingRemove s = n := by simp [pendingRemove, hl, any_remove_ok, hn]
    unfold stepL
    rw [if_neg (by simp [hal] : ¬ s.crashed = true)]
    simp only [hl, goodProg]
    apply inv_finishL
    split
    · have hp' : pendingRemove { s with lock := some 1, lpath := [⟨.remove, true⟩, ⟨.readLen, true⟩, ⟨.testClosing, false⟩] } = n := by
        simp [pendingRemove, hn]
      exact h.lchange rfl rfl rfl rfl hal (by rw [hp', hp]) (by rw [hp']; exact hle)
        (Or.inr (Or.inr (Or.inr (Or.inl ⟨Or.inr rfl, n, hn, hle⟩))))
    · exact h
  · -- `conn.remove_out_bytes(sent_bytes)`
    have hl' : s.lpath = [⟨.remove, true⟩, ⟨.readLen, true⟩, ⟨.testClosing, false⟩] := hl
    have hp : pendingRemove s = n := by simp [pendingRemove, hl', hn]
    unfold stepL
    rw [if_neg (by simp [hal] : ¬ s.crashed = true)]
    simp only [hl', hn]
    apply inv_finishL
    refine h.lchange (by simp) (by simp) (by simp) (by simp) (by simpa using hal) ?_ (by simp [pendingRemove]) ?_
    · rw [hp]; simp [pendingRemove]
    · exact Or.inr (Or.inr (Or.inr (Or.inr (Or.inl (by simp)))))
  · -- a line that reads `len(conn.write_buffer)`
    have hp : pendingRemove s = 0 := by simp [pendingRemove, hl]
    unfold stepL
    rw [if_neg (by simp [hal] : ¬ s.crashed = true)]
    simp only [hl]
    apply inv_finishL
    refine h.lchange (by simp) (by simp) (by simp) (by simp) (by simpa using hal) (by rw [hp]; simp [pendingRemove]) (by simp [pendingRemove]) ?_
    exact Or.inr (Or.inr (Or.inr (Or.inr (Or.inr (Or.inl (by simp))))))
  · -- `if len(conn.write_buffer) == 0 and conn.state == PEER_CLOSING:`
    have hp : pendingRemove s = 0 := by simp [pendingRemove, hl]
    unfold stepL
    rw [if_neg (by simp [hal] : ¬ s.crashed = true)]
    simp only [hl]
    apply inv_finishL
    exact h.lchange (by simp) (by simp) (by simp) (by simp) (by simpa using hal) (by rw [hp]; simp [pendingRemove]) (by simp [pendingRemove])
      (Or.inl (by simp))
  · -- `conn.close()`
    have hp : pendingRemove s = 0 := by simp [pendingRemove, hl]
    unfold stepL
    rw [if_neg (by simp [hal] : ¬ s.crashed = true)]
    simp only [hl]
    apply inv_finishL
    exact h.lchange (by simp) (by simp) (by simp) (by simp) (by simpa using hal) (by rw [hp]; simp [pendingRemove]) (by simp [pendingRemove])
      (Or.inl (by simp))

end DV.WP
