import DV.Proofs.Shift
import DV.Spec.Wire
namespace DV
open Spec

/-- concatenated RFC layouts of a list of AVPs -/
def Spec.avpsWire : List Avp → Bytes
  | [] => []
  | a :: rest => avpWire a ++ Spec.avpsWire rest

theorem avpWire_length_ge (a : Avp) : 8 ≤ (avpWire a).length := by
  simp only [avpWire, List.length_append, be32_length, List.length_cons, Spec.be24, List.length_nil]
  omega

theorem avpWire_length (a : Avp) :
    (avpWire a).length = (if a.vendor ≠ 0 then 12 else 8) + pad4 a.payload.length := by
  simp only [avpWire, List.length_append, be32_length, List.length_cons, Spec.be24,
    List.length_replicate, List.length_nil, padding, pad4]
  split <;> simp <;> omega

theorem avpsWire_length_ge (l : List Avp) : 8 * l.length ≤ (Spec.avpsWire l).length := by
  induction l with
  | nil => simp [Spec.avpsWire]
  | cons a r ih =>
    have := avpWire_length_ge a
    simp only [Spec.avpsWire, List.length_append, List.length_cons]; omega

theorem decodeAvp_wire_at (pre rest : Bytes) (a : Avp) (h : AvpWF a) :
    decodeAvp (pre ++ (avpWire a ++ rest)) pre.length = .ok (a, pre.length + (avpWire a).length) := by
  obtain ⟨hc, hv, hf, hl, hb⟩ := h
  have hl' : (if a.vendor ≠ 0 then 12 else 8) + a.payload.length < 16777216 := hl
  have hk : a.payload.length + padding a.payload.length = pad4 a.payload.length := by
    unfold padding pad4; omega
  have key := decodeAvp_layout a.code a.vendor a.flags a.payload rest hc hv hf hl' hb _ hk
  have e1 : avpWire a ++ rest = be32 a.code ++ (be32 (((if a.vendor ≠ 0 then 12 else 8) + a.payload.length) ||| a.flags <<< 24)
        ++ ((if a.vendor ≠ 0 then be32 a.vendor else []) ++ (a.payload ++ (List.replicate (padding a.payload.length) 0 ++ rest)))) := by
    rw [be32_lenflags _ _ hl' hf]
    simp [avpWire, Spec.be24, DV.be24]
  have := decodeAvp_shift pre (avpWire a ++ rest) 0
  simp only [Nat.add_zero] at this
  rw [this, e1, key, avpWire_length]
  simp [shiftPos]

/-- Decoding the concatenated layouts of well-formed AVPs (behind any prefix)
    returns exactly those AVPs, given one unit of fuel per AVP. -/
theorem decodeAvpsFuel_wire (l : List Avp) (hl : ∀ a ∈ l, AvpWF a) :
    ∀ (pre : Bytes) (fuel : Nat), l.length ≤ fuel →
      decodeAvpsFuel (pre ++ Spec.avpsWire l) fuel pre.length = .ok l := by
  induction l with
  | nil =>
    intro pre fuel _
    cases fuel <;> simp [decodeAvpsFuel, Spec.avpsWire]
  | cons a r ih =>
    intro pre fuel hf
    cases fuel with
    | zero => simp at hf
    | succ f =>
      have hwf := hl a (by simp)
      have hge := avpWire_length_ge a
      have hlt : ¬ (pre.length ≥ (pre ++ Spec.avpsWire (a :: r)).length) := by
        simp only [Spec.avpsWire, List.length_append]; omega
      simp only [decodeAvpsFuel, hlt, if_false]
      have hd := decodeAvp_wire_at pre (Spec.avpsWire r) a hwf
      simp only [Spec.avpsWire]
      rw [hd]
      have ih' := ih (fun x hx => hl x (by simp [hx])) (pre ++ avpWire a) f (by simp at hf; omega)
      simp only [List.length_append, List.append_assoc] at ih'
      simp only [ih']

theorem decodeAvps_wire (pre : Bytes) (l : List Avp) (hl : ∀ a ∈ l, AvpWF a) :
    decodeAvps (pre ++ Spec.avpsWire l) pre.length = .ok l := by
  unfold decodeAvps
  apply decodeAvpsFuel_wire l hl
  have := avpsWire_length_ge l
  simp only [List.length_append]; omega

theorem encodeAvp_wire (a : Avp) (h : AvpWF a) : encodeAvp a = .ok (avpWire a) := by
  obtain ⟨hc, hv, hf, hl, _⟩ := h
  have hl' : (if a.vendor ≠ 0 then 12 else 8) + a.payload.length < 16777216 := hl
  simp only [encodeAvp, Avp.length, hc, hv, lenflags_lt _ _ hl' hf, and_self, if_true,
    be32_lenflags _ _ hl' hf, packFopaque_self, avpWire]
  by_cases hz : a.vendor = 0
  · simp [hz, Spec.be24, DV.be24, padding]
  · simp [hz, Spec.be24, DV.be24, padding]

theorem encodeAvps_wire (l : List Avp) (hl : ∀ a ∈ l, AvpWF a) :
    encodeAvps l = .ok (Spec.avpsWire l) := by
  induction l with
  | nil => rfl
  | cons a r ih =>
    simp only [encodeAvps, encodeAvp_wire a (hl a (by simp)),
      ih (fun x hx => hl x (by simp [hx])), Spec.avpsWire]

/-- `decodeAvp` only ever fails with `ConversionError`. -/
theorem decodeAvp_error (buf : Bytes) (pos : Nat) (e : Exc) (h : decodeAvp buf pos = .error e) :
    e = .conversion := by
  unfold decodeAvp at h
  cases h1 : unpackUint buf pos with
  | error e1 =>
    simp only [h1, Except.error.injEq] at h
    unfold unpackUint at h1; split at h1 <;> simp_all
  | ok r1 =>
    obtain ⟨code, p1⟩ := r1
    simp only [h1] at h
    cases h2 : unpackUint buf p1 with
    | error e2 =>
      simp only [h2, Except.error.injEq] at h
      unfold unpackUint at h2; split at h2 <;> simp_all
    | ok r2 =>
      obtain ⟨fl, p2⟩ := r2
      simp only [h2] at h
      unfold decodeAvpBody at h
      split at h
      · cases h3 : unpackUint buf p2 with
        | error e3 =>
          simp only [h3, Except.error.injEq] at h
          unfold unpackUint at h3; split at h3 <;> simp_all
        | ok r3 =>
          obtain ⟨vendor, p3⟩ := r3
          simp only [h3] at h
          split at h
          · cases h4 : unpackFopaque buf p3 ((fl &&& 0x00ffffff) - 12) with
            | error e4 =>
              simp only [h4, Except.error.injEq] at h
              simp only [unpackFopaque] at h4; split at h4 <;> simp_all
            | ok r4 => obtain ⟨pl, p4⟩ := r4; simp [h4] at h
          · simp at h
      · split at h
        · cases h4 : unpackFopaque buf p2 ((fl &&& 0x00ffffff) - 8) with
          | error e4 =>
            simp only [h4, Except.error.injEq] at h
            simp only [unpackFopaque] at h4; split at h4 <;> simp_all
          | ok r4 => obtain ⟨pl, p4⟩ := r4; simp [h4] at h
        · simp at h

/-- The AVP loop never runs out of fuel: with `8 * fuel ≥ remaining bytes` the
    fuel-exhaustion result `.error .other` is unreachable, i.e. the Python
    `while not unpacker.is_done()` loop terminates on every input. -/
theorem decodeAvpsFuel_no_exhaustion (buf : Bytes) :
    ∀ (fuel pos : Nat), buf.length ≤ pos + 8 * fuel →
      decodeAvpsFuel buf fuel pos ≠ .error .other := by
  intro fuel
  induction fuel with
  | zero =>
    intro pos h
    have : pos ≥ buf.length := by omega
    simp [decodeAvpsFuel, this]
  | succ f ih =>
    intro pos h
    simp only [decodeAvpsFuel]
    split
    · simp
    · cases hd : decodeAvp buf pos with
      | error e =>
        have := decodeAvp_error buf pos e hd
        subst this; simp
      | ok r =>
        obtain ⟨a, p⟩ := r
        have hp := decodeAvp_progress buf pos p a hd
        have := ih p (by omega)
        simp only
        cases hr : decodeAvpsFuel buf f p with
        | error e => simp only [ne_eq, Except.error.injEq]; intro he; subst he; exact this hr
        | ok l => simp

end DV
