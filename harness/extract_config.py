"""Translator, part 3: the model switches that theorems take as hypotheses (`Model/Config.lean`), read off the
*shape* of the current source and written to lean/DV/Generated/ConfigSrc.lean.

`Model/Config.lean` is hand-maintained and tied to the code by the correspondence; the switches below are additionally
recognised structurally in the source of the method they describe (the guard the `fix:` commit introduced is there / is
not there / the method has a shape this recogniser does not know).  `Properties/ConfigTie.lean` states, per property,
that the switch its theorems assume is the one the source shows -- an obligation that fails the moment the guard is
edited away (or rewritten beyond recognition: then the failing-input search decides), without waiting for a scenario to
reach the branch.

Each recogniser returns True, False or None (shape not recognised)."""
from __future__ import annotations

import ast
import inspect
import os
import textwrap

GEN = os.path.join(os.path.dirname(os.path.dirname(os.path.abspath(__file__))), "lean", "DV", "Generated")


def _fn(f) -> ast.FunctionDef:
    f = getattr(f, "__func__", f)
    tree = ast.parse(textwrap.dedent(inspect.getsource(f)))
    assert isinstance(tree.body[0], ast.FunctionDef)
    return tree.body[0]


def _names(node) -> set:
    return {n.id for n in ast.walk(node) if isinstance(n, ast.Name)} | {n.attr for n in ast.walk(node) if isinstance(n, ast.Attribute)}


def _calls(node, attr: str) -> list:
    return [c for c in ast.walk(node) if isinstance(c, ast.Call) and isinstance(c.func, ast.Attribute) and c.func.attr == attr]


def _ends_with_return(body) -> bool:
    return bool(body) and isinstance(body[-1], ast.Return)


def gate_closing(peer_mod):
    """`PeerConnection.__dispatch_message` begins (before it looks at PEER_CONNECTED) with a test of the state against
    CONNECTING, CLOSING and CLOSED whose branch returns."""
    fn = _fn(getattr(peer_mod.PeerConnection, "_PeerConnection__dispatch_message"))
    states = {"PEER_CONNECTING", "PEER_CLOSING", "PEER_CLOSED"}
    for st in fn.body:
        if isinstance(st, ast.Expr) and isinstance(st.value, ast.Constant):
            continue
        if isinstance(st, ast.If):
            nm = _names(st.test)
            if states <= nm and "state" in nm and _ends_with_return(st.body) and not st.orelse:
                return True
            if "PEER_CONNECTED" in nm and not (nm & {"PEER_CLOSING", "PEER_CLOSED"}):
                # the capabilities-exchange test comes first: no gate in front of it
                return False if not any(states & _names(x) for x in fn.body if isinstance(x, ast.If)) else None
        return None
    return None


def answer_only_requests(node_mod):
    """the catch-all handler of `Node._receive_message` returns for a message that is not a request before it builds an answer"""
    fn = _fn(node_mod.Node._receive_message)
    handlers = [h for t in ast.walk(fn) if isinstance(t, ast.Try) for h in t.handlers
                if _calls(h, "_generate_answer") and (h.type is None or "Exception" in _names(h.type))]
    if len(handlers) != 1:
        return None
    h = handlers[0]
    for st in h.body:
        if _calls(st, "_generate_answer"):
            return False if "is_request" not in _names(h) else None
        if isinstance(st, ast.If) and isinstance(st.test, ast.UnaryOp) and isinstance(st.test.op, ast.Not) \
                and "is_request" in _names(st.test) and _ends_with_return(st.body) and not st.orelse:
            return True
    return None


def remove_only_own(node_mod):
    """`remove_peer_connection` clears `peer.connection` only under a flag that is false when the peer has another
    connection (`not (peer and peer.connection and peer.connection != conn)`)."""
    fn = _fn(node_mod.Node.remove_peer_connection)
    clearing = [st for st in ast.walk(fn) if isinstance(st, ast.If) and any(
        isinstance(a, ast.Assign) and isinstance(a.targets[0], ast.Attribute) and a.targets[0].attr == "connection"
        and isinstance(a.value, ast.Constant) and a.value.value is None for a in st.body)]
    if len(clearing) != 1:
        return None
    test = clearing[0].test
    if isinstance(test, ast.Name) and test.id == "peer":
        return False
    if not (isinstance(test, ast.BoolOp) and isinstance(test.op, ast.And)):
        return None
    flags = [v.id for v in test.values if isinstance(v, ast.Name) and v.id != "peer"]
    if len(flags) != 1:
        return None
    defs = [a for a in ast.walk(fn) if isinstance(a, ast.Assign) and isinstance(a.targets[0], ast.Name) and a.targets[0].id == flags[0]]
    if len(defs) != 1:
        return None
    v = defs[0].value
    if isinstance(v, ast.UnaryOp) and isinstance(v.op, ast.Not) and any(
            isinstance(c, ast.Compare) and isinstance(c.ops[0], ast.NotEq) and "connection" in _names(c.left) and "conn" in _names(c)
            for c in ast.walk(v)):
        return True
    return None


def remove_cleans_tables(node_mod):
    """`remove_peer_connection` deletes the connection from `_half_ready_connections` and from `socket_peers`"""
    fn = _fn(node_mod.Node.remove_peer_connection)
    dels = {t.value.attr for d in ast.walk(fn) if isinstance(d, ast.Delete) for t in d.targets
            if isinstance(t, ast.Subscript) and isinstance(t.value, ast.Attribute)}
    pops = {c.func.value.attr for c in _calls(fn, "pop") if isinstance(c.func.value, ast.Attribute)}
    got = {"_half_ready_connections", "socket_peers"} & (dels | pops)
    return True if len(got) == 2 else (False if not got else None)


def reject_stops_workers(node_mod):
    """both refusals of `_add_peer_connection` (node stopping, peer already connected) close the connection object"""
    fn = _fn(node_mod.Node._add_peer_connection)
    refusals = [st for st in ast.walk(fn) if isinstance(st, ast.If) and _ends_with_return(st.body)
                and (st.body[-1].value is None or (isinstance(st.body[-1].value, ast.Constant) and st.body[-1].value.value in (None, False)))
                and [c for c in _calls(ast.Module(st.body, []), "close") if isinstance(c.func.value, ast.Name) and c.func.value.id == "peer_socket"]]
    if len(refusals) != 2:
        return None
    closing = [bool([c for c in _calls(ast.Module(st.body, []), "close") if isinstance(c.func.value, ast.Name) and c.func.value.id == "conn"])
               for st in refusals]
    return True if all(closing) else (False if not any(closing) else None)


def app_consumers_catch(app_mod):
    """every `send_answer` call of the ThreadingApplication's queue consumers sits in a `try` with a catch-all handler"""
    cls = app_mod.ThreadingApplication
    found = []
    for name, m in vars(cls).items():
        if not inspect.isfunction(m) or name in ("send_answer",):
            continue
        fn = _fn(m)
        if not any(isinstance(w, ast.While) for w in ast.walk(fn)):
            continue                                   # (the consumers are the methods that loop)
        guarded = {id(c) for t in ast.walk(fn) if isinstance(t, ast.Try)
                   and any(h.type is None or "Exception" in _names(h.type) for h in t.handlers)
                   for b in t.body for c in _calls(b, "send_answer")}
        for c in _calls(fn, "send_answer"):
            found.append(id(c) in guarded)
    if not found:
        return None
    return True if all(found) else (False if not any(found) else None)


def slot_always_returned(app_mod):
    """the handler thread hands its result to the response queue unconditionally (`None` included)"""
    cls = app_mod.ThreadingApplication
    for name, m in vars(cls).items():
        if not inspect.isfunction(m):
            continue
        fn = _fn(m)
        puts = [c for c in _calls(fn, "put") if isinstance(c.func.value, ast.Attribute) and c.func.value.attr == "_resp_msg_queue"]
        if not puts or not _calls(fn, "handle_request"):
            continue
        top = [st for st in fn.body if isinstance(st, ast.Expr) and st.value in puts]
        if top:
            return True
        cond = [st for st in ast.walk(fn) if isinstance(st, ast.If) and any(p in list(ast.walk(st)) for p in puts)
                and "answer" in _names(st.test)]
        return False if cond else None
    return None


def decode_keeps_flags(msg_mod):
    """`Message.from_bytes` writes the received flag octet back after constructing the command class"""
    fn = _fn(msg_mod.Message.from_bytes)
    saved = [a.targets[0].id for a in ast.walk(fn) if isinstance(a, ast.Assign) and isinstance(a.targets[0], ast.Name)
             and isinstance(a.value, ast.Attribute) and a.value.attr == "command_flags"]
    back = [a for a in ast.walk(fn) if isinstance(a, ast.Assign) and isinstance(a.targets[0], ast.Attribute)
            and a.targets[0].attr == "command_flags" and isinstance(a.value, ast.Name) and a.value.id in saved]
    if not back:
        return False if not saved else None
    # unconditional: a top-level statement of the function
    return True if any(b in fn.body for b in back) else None


def answer_keeps_p(msg_mod):
    """`Message.to_answer` re-applies the request's P bit to the answer after the answer class has been constructed"""
    fn = _fn(msg_mod.Message.to_answer)
    sets = [a for a in fn.body if isinstance(a, ast.Assign) and isinstance(a.targets[0], ast.Attribute)
            and a.targets[0].attr == "is_proxyable" and "answer" in _names(a.targets[0]) and "is_proxyable" in _names(a.value)]
    cond = [a for a in ast.walk(fn) if isinstance(a, ast.Assign) and isinstance(a.targets[0], ast.Attribute)
            and a.targets[0].attr == "is_proxyable" and "answer" in _names(a.targets[0])]
    return True if sets else (False if not cond else None)


def connect_fail_closes(node_mod):
    """a synchronous connect failure in `_connect_to_peer` goes through `close_connection_socket`"""
    fn = _fn(node_mod.Node._connect_to_peer)
    hs = [h for t in ast.walk(fn) if isinstance(t, ast.Try) for h in t.handlers]
    if not hs:
        return None
    closes = [bool(_calls(h, "close_connection_socket")) for h in hs]
    removes = [bool(_calls(h, "remove_peer_connection")) for h in hs]
    if all(closes) and not any(removes):
        return True
    if all(removes) and not any(closes):
        return False
    return None


def origin_bookkeeping(node_mod):
    """(`originOnlyRequests`, `originKeyPerConn`): `_receive_message` records the origin under a test of `is_request`; the key
    is built from the connection's ident as well as the two identifiers"""
    fn = _fn(node_mod.Node._receive_message)
    stores = [(st, a) for st in ast.walk(fn) if isinstance(st, ast.If) for a in st.body
              if isinstance(a, ast.Assign) and isinstance(a.targets[0], ast.Subscript) and "_origin_waiting_answer" in _names(a.targets[0])]
    top = [a for a in fn.body if isinstance(a, ast.Assign) and isinstance(a.targets[0], ast.Subscript)
           and "_origin_waiting_answer" in _names(a.targets[0])]
    if len(stores) + len(top) != 1:
        return None, None
    only_req = ("is_request" in _names(stores[0][0].test)) if stores else False
    keys = [a for a in ast.walk(fn) if isinstance(a, ast.Assign) and isinstance(a.targets[0], ast.Name) and a.targets[0].id == "message_id"]
    per_conn = None
    if len(keys) == 1:
        nm = _names(keys[0].value)
        per_conn = "ident" in nm and "hop_by_hop_identifier" in nm and "end_to_end_identifier" in nm
        if not per_conn and not ("hop_by_hop_identifier" in nm or "end_to_end_identifier" in nm):
            per_conn = None
    return only_req, per_conn


def ce_timeout_from_established(node_mod):
    """`_check_timers` measures the CER/CEA timeouts on a CONNECTED connection from its establishment"""
    fn = _fn(node_mod.Node._check_timers)
    tests = [st.test for st in ast.walk(fn) if isinstance(st, ast.If) and ({"cea_timeout", "cer_timeout"} & _names(st.test))
             and isinstance(st.test, ast.BoolOp)]
    if not tests:
        return None
    est = [("established_since" in _names(t)) or ("established" in _names(t)) for t in tests]
    lr = [("last_read_since" in _names(t)) or ("last_read" in _names(t)) for t in tests]
    if all(est) and not any(lr):
        return True
    if all(lr) and not any(est):
        return False
    return None


def addr_guard(avp_mod):
    """`AvpAddress.value` (the getter): every statement that touches the payload (`struct.unpack`, `inet_ntop`, `decode`)
    sits inside one `try` whose handler names `struct.error` and `ValueError` and raises `AvpDecodeError`."""
    fn = _fn(avp_mod.AvpAddress.value.fget)
    body = [st for st in fn.body if not (isinstance(st, ast.Expr) and isinstance(st.value, ast.Constant))]
    touching = ("unpack", "inet_ntop", "decode", "hex")
    outside = [st for st in body if not isinstance(st, ast.Try) and any(_calls(st, a) for a in touching)]
    tries = [st for st in body if isinstance(st, ast.Try) and _calls(st, "unpack")]
    if not tries:
        return False if outside else None
    if outside or len(tries) != 1:
        return None
    t = tries[0]
    for h in t.handlers:
        nm = _names(h.type) if h.type is not None else set()
        raises = [r for r in ast.walk(h) if isinstance(r, ast.Raise) and r.exc is not None and "AvpDecodeError" in _names(r.exc)]
        if {"error", "ValueError"} <= nm and raises:
            return True
    return False


def _reader_handler(peer_mod):
    """the `except Exception` handler of the frame loop inside `PeerConnection.work_read_queue`, and that loop"""
    fn = _fn(peer_mod.PeerConnection.work_read_queue)
    for loop in ast.walk(fn):
        if isinstance(loop, ast.While) and "resume_waiting" in _names(loop.test):
            for st in loop.body:
                if isinstance(st, ast.Try) and _calls(st, "from_bytes"):
                    for h in st.handlers:
                        if h.type is not None and "Exception" in _names(h.type):
                            return loop, st, h
    return None, None, None


def frame_skip_zero_guard(peer_mod):
    """the handler's first statement decides "discard this frame" by a test that (besides comparing the buffer length
    with the header's length field) requires the length field to be greater than zero"""
    loop, tr, h = _reader_handler(peer_mod)
    if h is None or not h.body or not isinstance(h.body[0], ast.If):
        return None
    test = h.body[0].test
    nm = _names(test)
    if not {"msg_header", "length", "_read_buffer"} <= nm:
        return None
    for c in ast.walk(test):
        if isinstance(c, ast.Compare) and len(c.ops) == 1 and isinstance(c.left, ast.Attribute) and c.left.attr == "length":
            r = c.comparators[0]
            if isinstance(c.ops[0], ast.Gt) and isinstance(r, ast.Constant) and r.value == 0:
                return True
            if isinstance(c.ops[0], ast.GtE) and isinstance(r, ast.Constant) and r.value == 1:
                return True
    return False


def frame_fall_through(peer_mod):
    """the "discard this frame" branch of the handler does not `continue`: control reaches the statement after the
    `try`, and the loop body ends with the "fewer than 20 octets left: wait" test (`0 < len(buffer) < 20`)"""
    loop, tr, h = _reader_handler(peer_mod)
    if h is None or not h.body or not isinstance(h.body[0], ast.If):
        return None
    discard = h.body[0].body
    last = loop.body[-1]
    tail_ok = (isinstance(last, ast.If) and {"_read_buffer", "len"} <= _names(last.test) and
               any(isinstance(c, ast.Constant) and c.value == 20 for c in ast.walk(last.test)) and
               any(isinstance(a, ast.Assign) and "resume_waiting" in _names(a) for a in last.body))
    if not tail_ok:
        return None
    jumps = [x for st in discard for x in ast.walk(st) if isinstance(x, (ast.Continue, ast.Break, ast.Return))]
    return not jumps


def stop_final_pass(node_mod):
    """`Node._handle_connections`: the branch taken once the thread has been told to stop walks a *copy* of
    `self.connections` and, for every connection in it, calls `close_connection_socket(conn, …)` and `conn.close(…)`,
    then returns (the shape `Model/NodeLoop.lean: stopFinal` folds over)."""
    fn = _fn(node_mod.Node._handle_connections)
    for st in ast.walk(fn):
        if isinstance(st, ast.If) and "is_stopped" in _names(st.test):
            loops = [x for x in st.body if isinstance(x, ast.For)]
            if not loops or not _ends_with_return(st.body):
                return False
            lp = loops[0]
            it = lp.iter
            copied = (isinstance(it, ast.Call) and isinstance(it.func, ast.Name) and it.func.id in ("list", "tuple") and
                      "connections" in _names(it))
            if not copied or not isinstance(lp.target, ast.Name):
                return None if "connections" in _names(it) else False
            var = lp.target.id
            top = [x.value for x in lp.body if isinstance(x, ast.Expr) and isinstance(x.value, ast.Call)]
            closes_sock = any(isinstance(c.func, ast.Attribute) and c.func.attr == "close_connection_socket" and c.args and
                              isinstance(c.args[0], ast.Name) and c.args[0].id == var for c in top)
            closes_conn = any(isinstance(c.func, ast.Attribute) and c.func.attr == "close" and
                              isinstance(c.func.value, ast.Name) and c.func.value.id == var for c in top)
            guarded = any(isinstance(x, (ast.If, ast.Try, ast.Continue, ast.Break)) for x in lp.body)
            if guarded:
                return None
            return closes_sock and closes_conn
    return None


def extract() -> dict:
    import diameter.node.node as node_mod
    import diameter.node.peer as peer_mod
    import diameter.node.application as app_mod
    out = {}
    for key, f, arg in (("gateClosing", gate_closing, peer_mod), ("answerOnlyRequests", answer_only_requests, node_mod),
                        ("removeOnlyOwn", remove_only_own, node_mod), ("removeCleansTables", remove_cleans_tables, node_mod),
                        ("rejectStopsWorkers", reject_stops_workers, node_mod), ("appConsumersCatch", app_consumers_catch, app_mod),
                        ("slotAlwaysReturned", slot_always_returned, app_mod)):
        try:
            out[key] = f(arg)
        except Exception:  # noqa      (a method that is gone or cannot be parsed: shape not recognised)
            out[key] = None
    import diameter.message._base as msg_mod
    for key, f, arg in (("decodeKeepsFlags", decode_keeps_flags, msg_mod), ("answerKeepsP", answer_keeps_p, msg_mod),
                        ("connectFailCloses", connect_fail_closes, node_mod),
                        ("ceTimeoutFromEstablished", ce_timeout_from_established, node_mod)):
        try:
            out[key] = f(arg)
        except Exception:  # noqa
            out[key] = None
    try:
        out["stopFinalPass"] = stop_final_pass(node_mod)
    except Exception:  # noqa
        out["stopFinalPass"] = None
    import diameter.message.avp.avp as avp_mod
    for key, f, arg in (("addrGuard", addr_guard, avp_mod), ("frameSkipZeroGuard", frame_skip_zero_guard, peer_mod),
                        ("frameFallThrough", frame_fall_through, peer_mod)):
        try:
            out[key] = f(arg)
        except Exception:  # noqa
            out[key] = None
    try:
        out["originOnlyRequests"], out["originKeyPerConn"] = origin_bookkeeping(node_mod)
    except Exception:  # noqa
        out["originOnlyRequests"], out["originKeyPerConn"] = None, None
    return out


def emit(cfg: dict, write_if_changed) -> bool:
    s = "-- GENERATED by harness/extract_config.py from /repo's working tree. Do not edit.\n"
    s += "namespace DV.Gen.ConfigSrc\n\n"
    for k, v in cfg.items():
        lean = "none" if v is None else ("some true" if v else "some false")
        s += f"/-- as recognised in the source: `some b` = the guard is there / is not there, `none` = shape not recognised -/\n"
        s += f"def {k} : Option Bool := {lean}\n\n"
    s += "end DV.Gen.ConfigSrc\n"
    return write_if_changed(os.path.join(GEN, "ConfigSrc.lean"), s)


if __name__ == "__main__":
    import sys
    sys.path.insert(0, os.environ.get("DV_REPO_SRC", "/repo/src"))
    print(extract())
