"""C07 — each transmitted answer answers exactly one received request, never an answer."""
from __future__ import annotations

import random

from common import Result
import nodegen
import nodecheck
from nodecheck import Obs, kv, parse_msg

PROP = "C07"
MODULES = ["DV.Properties.C07", "DV.Properties.C07Hist", "DV.Properties.C07Out", "DV.Properties.C07One", "DV.Properties.ConfigTie", "DV.Properties.C07Ans"]
KEEP = {"OUT": None}


def oracle(line: str, obs: Obs):
    fails = []
    pending: dict[str, list] = {}          # conn -> unanswered requests read (cmd, app, hbh, e2e)
    dup_inflight = set()
    ident: dict[str, str] = {}             # conn -> host identity after the capabilities exchange
    for ev, lines in obs.blocks:
        t = ev.split(" ")
        if t[0] in ("rx", "rxcut", "rxn"):
            c = f"c{t[1]}"
            for d in (t[3:] if t[0] == "rxcut" else t[2:]):
                m = parse_msg(d)
                if m["R"]:
                    key = (m["cmd"], m["app"], m["hbh"], m["e2e"])
                    if any(k[2] == m["hbh"] for k in pending.get(c, [])):
                        dup_inflight.add(c)     # outside the quantifier from here on
                    pending.setdefault(c, []).append(key)
        for l in lines:
            if l.startswith("OUT "):
                c = l.split(" ")[1]
                d = kv(l)
                if d["R"] == "1" and c not in dup_inflight and \
                        (int(d["cmd"]), int(d["app"]), int(d["hbh"]), int(d["e2e"])) in pending.get(c, []):
                    # what goes out bearing the command, application and both identifiers of an unanswered request of the peer
                    # is the reply to it: it must be an answer
                    pending[c].remove((int(d["cmd"]), int(d["app"]), int(d["hbh"]), int(d["e2e"])))
                    fails.append({"what": "answer transmitted with the request bit set", "real": l, "event": ev[:200]})
                if d["R"] == "0":
                    if c in dup_inflight:
                        continue
                    key = (int(d["cmd"]), int(d["app"]), int(d["hbh"]), int(d["e2e"]))
                    if key in pending.get(c, []):
                        pending[c].remove(key)
                        if int(d["flags"]) & 0x80:
                            fails.append({"what": "answer transmitted with the request bit set", "real": l})
                    else:
                        f = {"what": "transmitted answer does not answer an unanswered request received on that "
                                     "connection (answer to an answer, second answer, or wrong identifiers)",
                             "real": l, "event": ev}
                        # the request is pending on another connection identified as the same peer?
                        host = ident.get(c)
                        other = next((c2 for c2, ks in pending.items() if c2 != c and key in ks and host and ident.get(c2) == host), None)
                        if other is not None and t[0] == "ans":      # (only answers submitted by an application take that path)
                            pending[other].remove(key)
                            f["sig"] = "answer_on_peers_other_connection"
                            f["what"] = ("application answer transmitted on another connection of the same peer than the one the "
                                         f"request arrived on (request on {other}, answer on {c})")
                        fails.append(f)
        for l in lines:
            if l.startswith("CONN "):
                d = kv(l)
                if d.get("ident", "-") != "-":
                    ident[l.split(" ")[1]] = d["ident"]
    return fails


def scenarios(rng: random.Random, n: int, depth: int) -> list[str]:
    out = []
    for i in range(n):
        cfg = rng.choice(list(nodegen.CONFIGS)) if rng.random() < 0.7 else nodegen.random_config(rng)
        out.append(nodegen.random_scenario(rng, cfg, depth, unique=True, handshake=0.7))
    # two connections of one peer, both handshaken: every request kind on the peer's current and on its extra connection
    h = [40000]

    def n():
        h[0] += 1
        return h[0]
    for cfgn in ("two", "rq", "basic"):
        pre = (nodegen.CONFIGS[cfgn] + " | start | acc | rx 0 " + nodegen.cer("peer1.x", "4+3", n(), n(), extra=",acct=3") +
               " | acc | rx 1 " + nodegen.cer("peer1.x", "4+3", n(), n(), extra=",acct=3"))
        for c in (0, 1):
            reqs = [nodegen.dwr(n(), n()), nodegen.dpr(n(), n()), nodegen.ccr(n(), n()), nodegen.ccr(n(), n(), realm="foreign.realm"),
                    nodegen.unk(n(), n()), nodegen.unk(n(), n(), app=77), nodegen.cer("peer1.x", "4", n(), n()),
                    nodegen.ccr(n(), n(), drop=("sid", "rt"))]
            for r in reqs:
                out.append(pre + f" | rx {c} {r} | tick")
            out.append(pre + f" | rx {c} {nodegen.dpr(n(), n())} | rx {c} {nodegen.dwr(n(), n())} | rx {1 - c} {nodegen.dwr(n(), n())}")
            napps = nodegen.CONFIGS[cfgn].count("app:")
            out.append(pre + f" | rx {c} {nodegen.ccr(n(), n())} | rx {c} {nodegen.dpr(n(), n())} | " +
                       " | ".join(f"ans {a} 0 2001" for a in range(napps)))
    # one read ending inside the next message: the complete one is answered once, the other when its rest arrives
    for cfgn in ("basic", "two"):
        pre = nodegen.CONFIGS[cfgn] + " | start | acc | rx 0 " + nodegen.cer("peer1.x", "4", n(), n())
        for cut in (1, 19, 20, 21, 28, 1000):
            out.append(pre + f" | rxcut 0 {cut} {nodegen.dwr(n(), n())} {nodegen.dwr(n(), n())} | rx 0 {nodegen.dwr(n(), n())}")
            out.append(pre + f" | rxcut 0 {cut} {nodegen.ccr(n(), n())} {nodegen.unk(n(), n(), app=77)} | tick")
            out.append(pre + f" | rxcut 0 {cut} {nodegen.unk(n(), n())} {nodegen.dpr(n(), n())} | tick")
    # a long-lived connection: an answer of some result-code range (3xxx for a realm not served, 5xxx for a missing AVP, 2xxx),
    # then more than the statistics window (1000 s) in which watchdogs keep coming but no answer of that range goes out, then
    # such a request again: one answer each
    for cfgn in ("basic", "two"):
        import re as _re
        longcfg = _re.sub(r";(idle|dwa)=\d+", "", nodegen.CONFIGS[cfgn]).replace("NODE ", "NODE idle=2000;dwa=2000;")
        pre = longcfg + " | start | acc | rx 0 " + nodegen.cer("peer1.x", "4", n(), n())
        for mk in (lambda: nodegen.ccr(n(), n(), realm="foreign.realm"), lambda: nodegen.ccr(n(), n(), drop=("sid", "rt")),
                   lambda: nodegen.unk(n(), n(), app=77)):
            quiet = " | ".join(f"adv 400 | rx 0 {nodegen.dwr(n(), n())}" for _ in range(3))
            out.append(pre + f" | rx 0 {mk()} | {quiet} | rx 0 {mk()} | tick | rx 0 {nodegen.dwr(n(), n())}")
    # reads that pile up while the connection's reader thread is not scheduled: each message its own read, the I/O loop making
    # its passes back to back, the reader running afterwards (real node only)
    for cfgn in ("basic", "two"):
        pre = nodegen.CONFIGS[cfgn] + " | start | acc | rx 0 " + nodegen.cer("peer1.x", "4", n(), n())
        out.append(pre + f" | rxn 0 {nodegen.dwr(n(), n())} {nodegen.ccr(n(), n())} {nodegen.dwr(n(), n())} | tick")
        out.append(pre + f" | rxn 0 {nodegen.ccr(n(), n())} {nodegen.ccr(n(), n(), realm='foreign.realm')} | tick | rx 0 {nodegen.dwr(n(), n())}")
    # answers carrying the T flag and the identifiers of a request the node has answered before
    for cfgn in ("basic", "two", "rq"):
        pre = nodegen.CONFIGS[cfgn] + " | start | acc | rx 0 " + nodegen.cer("peer1.x", "4", n(), n())
        h1, e1, h2, e2 = n(), n(), n(), n()
        for fl in (16, 80, 48):
            stray = [f"DW:{fl}:0:{n()}:{e1}:rc=2001,oh=peer1.x,or={nodegen.REALM}",
                     f"DW:{fl}:0:{h1}:{e1}:rc=2001,oh=peer1.x,or={nodegen.REALM}",
                     f"CC:{fl}:4:{n()}:{e2}:sid=s;1,rc=2001,oh=peer1.x,or={nodegen.REALM},auth=4,rt=1,rn=0",
                     f"UN:{fl}:4:{n()}:{e2}:sid=s;9,oh=peer1.x,or={nodegen.REALM}"]
            for m in stray:
                out.append(pre + f" | rx 0 {nodegen.dwr(h1, e1)} | rx 0 {nodegen.unk(h2, e2, app=77)} | rx 0 {m} | rx 0 {nodegen.dwr(n(), n())}")
    # typed requests whose header carries another application id than the command's usual one: the answer mirrors the header
    for cfgn in ("basic", "two"):
        pre = nodegen.CONFIGS[cfgn] + " | start | acc | rx 0 " + nodegen.cer("peer1.x", "4", n(), n())
        for appid in (999, 16777238, 0, 4294967295, 3):
            out.append(pre + f" | rx 0 {nodegen.ccr(n(), n(), app=appid)} | rx 0 {nodegen.ccr(n(), n(), app=appid, realm='foreign.realm')} | "
                             f"rx 0 {nodegen.ccr(n(), n(), app=appid, drop=('sid', 'rt'))} | rx 0 {nodegen.dwr(n(), n())}")
    # a request that was answered is repeated with the T flag under a new hop-by-hop id (same connection / the peer's
    # other connection): whatever the node answers must answer *that* request
    for cfgn in ("basic", "two", "rq"):
        pre = (nodegen.CONFIGS[cfgn] + " | start | acc | rx 0 " + nodegen.cer("peer1.x", "4", n(), n()) +
               " | acc | rx 1 " + nodegen.cer("peer1.x", "4", n(), n()))
        for c2 in (0, 1):
            e1, e2 = n(), n()
            out.append(pre + f" | rx 0 {nodegen.dwr(n(), e1)} | rx {c2} DW:144:0:{n()}:{e1}:oh=peer1.x,or={nodegen.REALM} | rx {c2} {nodegen.dwr(n(), n())}")
            out.append(pre + f" | rx 0 {nodegen.ccr(n(), e2)} | ans 0 0 2001 | rx {c2} {nodegen.ccr(n(), e2, flags=208)} | rx {c2} {nodegen.dwr(n(), n())}")
            out.append(pre + f" | rx 0 {nodegen.unk(n(), e2, app=77)} | rx {c2} {nodegen.unk(n(), e2, app=77, flags=144)} | rx {c2} {nodegen.dwr(n(), n())}")
    # a defective answer (its handling raises) bearing the very identifiers of a request of the peer that is still with the
    # application: nothing goes out in reaction to it, and the application's answer still gets through afterwards
    for cfgn in ("basic", "two", "rq"):
        pre = nodegen.CONFIGS[cfgn] + " | start | acc | rx 0 " + nodegen.cer("peer1.x", "4", n(), n())
        for mk in (lambda h_, e_: nodegen.cea(2001, None, h_, e_), lambda h_, e_: nodegen.cca(h_, e_, "peer1.x", drop=("rc",)),
                   lambda h_, e_: nodegen.cea(2001, "peer1.x", h_, e_), lambda h_, e_: nodegen.cea(3010, None, h_, e_)):
            h1, e1 = n(), n()
            out.append(pre + f" | rx 0 {nodegen.ccr(h1, e1)} | rx 0 {mk(h1, e1)} | rx 0 {nodegen.dwr(n(), n())} | ans 0 0 2001 | "
                             f"rx 0 {nodegen.dwr(n(), n())}")
            h1, e1 = n(), n()
            out.append(pre + f" | rx 0 {nodegen.unk(h1, e1, app=4)} | rx 0 {mk(h1, e1)} | rx 0 {nodegen.dwr(n(), n())}")
    # defective answers on connections in every state (corpus of past findings first)
    base = nodegen.CONFIGS["out"]
    out.insert(0, base + " | start ok,ok | rx 0 " + nodegen.cea(2001, None, 2001, 268435464))
    out.insert(1, base + " | start ok,ok | rx 0 " + nodegen.cea(2001, "peer1.x", 2001, 268435464) + " | rx 0 " + nodegen.cca(77, 78, "peer1.x", drop=("rc",)))
    return out


def run(res: Result, tier: str, seed: int):
    rng = random.Random(seed * 1000003 + 7)
    res.rule = ("random histories (depth 8 quick / 14 thorough) over well-formed and defective requests and answers on 1..3 connections "
                "in every state, fresh hop-by-hop ids per request; oracle: every written message with R=0 matches an unanswered "
                "request read from the same virtual socket; real vs model on the OUT lines; non-trivial = scenarios without "
                "oracle failure")
    sc = scenarios(rng, 250 if tier == "quick" else 4000, 8 if tier == "quick" else 14)
    fails, div = nodecheck.run(res, sc, KEEP, oracle)
    fails = fails + racing_readers(res, tier)
    return fails, div


def racing_readers(res: Result, tier: str) -> list:
    """the reader threads of two connections inside the node at the same time (harness/readrace.py, fresh interpreter): under
    every sampled single-preemption schedule each peer gets back what it gets when the two messages are handled in turn"""
    import json
    import os
    import subprocess
    import sys
    from common import REPO_SRC
    here = os.path.dirname(os.path.abspath(__file__))
    env = dict(os.environ, TZ="UTC", DV_REPO_SRC=REPO_SRC, DV_RACE_STEP="3" if tier == "quick" else "1")
    try:
        p = subprocess.run([sys.executable, os.path.join(here, "readrace.py")], env=env, capture_output=True, text=True, timeout=1800)
        doc = json.loads(p.stdout.strip().splitlines()[-1])
    except Exception as e:  # noqa
        return [{"what": "two reader threads could not be run inside the node under a line-level schedule "
                         f"({type(e).__name__}: {str(e)[:200]})", "kind": "race", "line": "readrace.py"}]
    res.count("racing readers (single-preemption schedules, real threads)", doc["schedules"])
    res.cases += doc["schedules"]
    res.extra["racing_reader_schedules"] = doc["schedules"]
    res.rule += ("; two connections' reader threads inside Node._receive_message at the same time (DWR/CCR, CCR/CCR, DWR/DWR; with "
                 "and without other requests pending) under every sampled single-preemption schedule, every line of node.py, "
                 "peer.py, application.py a scheduling point: the transmitted answers are those of handling the two in turn")
    return doc["fails"]


def signature(f: dict):
    return f.get("sig")


def search(res: Result, seed: int, broken) -> list:
    rng = random.Random(seed * 7919 + 43)
    r2 = Result(PROP, "thorough", seed)
    fails, _ = nodecheck.run(r2, scenarios(rng, 1500, 12), KEEP, oracle)
    return fails
