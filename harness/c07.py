"""C07 — each transmitted answer answers exactly one received request, never an answer."""
from __future__ import annotations

import random

from common import Result
import nodegen
import nodecheck
from nodecheck import Obs, kv, parse_msg

PROP = "C07"
MODULES = ["DV.Properties.C07"]
KEEP = {"OUT": None}


def oracle(line: str, obs: Obs):
    fails = []
    pending: dict[str, list] = {}          # conn -> unanswered requests read (cmd, app, hbh, e2e)
    dup_inflight = set()
    for ev, lines in obs.blocks:
        t = ev.split(" ")
        if t[0] == "rx":
            c = f"c{t[1]}"
            for d in t[2:]:
                m = parse_msg(d)
                if m["R"]:
                    key = (m["cmd"], m["app"], m["hbh"], m["e2e"])
                    if any(k[2] == m["hbh"] for k in pending.get(c, [])):
                        dup_inflight.add(c)     # outside the quantifier from here on
                    pending.setdefault(c, []).append(key)
        for l in lines:
            if l.startswith("OUT "):
                c = l.split(" ")[1]
                d = kv(l)
                if d["R"] == "0":
                    if c in dup_inflight:
                        continue
                    key = (int(d["cmd"]), int(d["app"]), int(d["hbh"]), int(d["e2e"]))
                    if key in pending.get(c, []):
                        pending[c].remove(key)
                        if int(d["flags"]) & 0x80:
                            fails.append({"what": "answer transmitted with the request bit set", "real": l})
                    else:
                        fails.append({"what": "transmitted answer does not answer an unanswered request received on that "
                                              "connection (answer to an answer, second answer, or wrong identifiers)",
                                      "real": l, "event": ev})
    return fails


def scenarios(rng: random.Random, n: int, depth: int) -> list[str]:
    out = []
    for i in range(n):
        cfg = rng.choice(list(nodegen.CONFIGS))
        out.append(nodegen.random_scenario(rng, cfg, depth, unique=True, handshake=0.7))
    # defective answers on connections in every state (corpus of past findings first)
    base = nodegen.CONFIGS["out"]
    out.insert(0, base + " | start ok,ok | rx 0 " + nodegen.cea(2001, None, 2001, 268435464))
    out.insert(1, base + " | start ok,ok | rx 0 " + nodegen.cea(2001, "peer1.x", 2001, 268435464) + " | rx 0 " + nodegen.cca(77, 78, "peer1.x", drop=("rc",)))
    return out


def run(res: Result, tier: str, seed: int):
    rng = random.Random(seed * 1000003 + 7)
    res.rule = ("random histories (depth 8 quick / 14 thorough) over well-formed and defective requests and answers on 1..3 connections "
                "in every state, fresh hop-by-hop ids per request; oracle: every written message with R=0 matches an unanswered "
                "request read from the same virtual socket; real vs model on the OUT lines; non-trivial = scenarios without "
                "oracle failure")
    sc = scenarios(rng, 250 if tier == "quick" else 4000, 8 if tier == "quick" else 14)
    return nodecheck.run(res, sc, KEEP, oracle)


def signature(f: dict):
    return None


def search(res: Result, seed: int, broken) -> list:
    rng = random.Random(seed * 7919 + 43)
    r2 = Result(PROP, "thorough", seed)
    fails, _ = nodecheck.run(r2, scenarios(rng, 1500, 12), KEEP, oracle)
    return fails
