"""C10 — requests go only to eligible ready peers; answers return to their sender."""
from __future__ import annotations

import random

from common import Result
import nodegen
import nodecheck
from nodecheck import Obs, kv, parse_msg, parse_cfg

PROP = "C10"
MODULES = ["DV.Properties.C10", "DV.Properties.C10Conc", "DV.Properties.C10One"]
KEEP = {"OUT": None, "APP": None}

CFG = ("NODE host=node.local;realm=realm.local;idle=9999;"
       "peer:peer1.x,realm.local,0,0,30,1,1,-,-,-,-;peer:peer2.x,realm.local,0,0,30,1,0,-,-,-,-;"
       "peer:peer3.x,realm2.local,0,0,30,1,0,-,-,-,-;peer:peer4.x,realm.local,0,0,30,1,0,-,-,-,-;"
       "app:4,1,0,b,0,0+1+3,-;app:4,1,0,b,0,2,-;app:3,0,1,b,0,-,-")
NAMES = ["peer1.x", "peer2.x", "peer3.x", "peer4.x"]


def oracle(line: str, obs: Obs):
    cfg = parse_cfg(line)
    fails = []
    realms = {cfg["realm"]: {"_default": []}}
    for pi, p in enumerate(cfg["peers"]):
        if p["default"]:
            realms.setdefault(p["realm"], {}).setdefault("_default", []).append(pi)
    for ai, a in enumerate(cfg["apps"]):
        for pi in a["peers"]:
            for r in [cfg["peers"][pi]["realm"]] + a["realms"]:
                realms.setdefault(r, {}).setdefault(ai, []).append(pi)
    state, ident = {}, {}
    reqs_from: dict[str, int] = {}          # connection -> request messages read on it (what the default callback compares)
    outstanding: dict[str, set] = {}
    sent_by = {}         # (hbh, e2e) -> app
    for ev, lines in obs.blocks:
        t = ev.split(" ")
        if t[0] == "req":
            ai = int(t[1])
            m = parse_msg(t[2])
            realm = m["keys"].get("dr", cfg["realm"])
            tbl = realms.get(realm)
            plist = None
            if tbl is not None:
                plist = tbl.get(ai)
                if plist is None:
                    plist = tbl.get("_default")
            eligible = []
            for pi in plist or []:
                nm = cfg["peers"][pi]["name"]
                cs = [c for c, idn in ident.items() if idn == nm and state.get(c) in ("READY", "WAITDWA")]
                if cs:
                    eligible.append(cs[0])
            outs = [(l.split(" ")[1], kv(l)) for l in lines if l.startswith("OUT ") and kv(l)["R"] == "1" and kv(l)["cmd"] == "272"]
            raised = [l for l in lines if l.startswith(f"APP a{ai} RAISE")]
            nested = any(w.startswith("req") for w in t[4:])
            if nested:
                # nested submissions while blocked: senders return innermost first
                # (a sender either gets an answer or ends with an error such as the timeout)
                rets = [l for l in lines if l.startswith("APP ") and (" GOT " in l or " RAISE " in l)]
                for i, l in enumerate(rets):
                    if " GOT " not in l:
                        continue
                    g = kv(l)
                    if i < len(outs):
                        want = outs[len(outs) - 1 - i][1]
                        if (g["hbh"], g["e2e"]) != (want["hbh"], want["e2e"]):
                            fails.append({"what": "blocked sender received an answer that does not bear its identifiers",
                                          "event": ev[:300], "real": str(g), "expected": f"hbh={want['hbh']} e2e={want['e2e']}",
                                          # (the recorded finding is about two requests of *one* application)
                                          "sig": "answer_waiting_hbh_only" if g["hbh"] == want["hbh"] and " | sethbh " in line and
                                          all(w.split("_")[1] == str(ai) for w in t[4:] if w.startswith("req_")) else None})
                continue
            if len(eligible) > 1 and len(outs) == 1 and outs[0][0] in eligible:
                # the default selection callback takes the peer that has sent the fewest requests (the first of them on a tie);
                # judged only where that peer is clear by a margin of two
                ranked = sorted(eligible, key=lambda c: reqs_from.get(c, 0))
                if reqs_from.get(ranked[1], 0) - reqs_from.get(ranked[0], 0) >= 2 and outs[0][0] != ranked[0]:
                    fails.append({"what": "request not sent to the peer the selection callback picks among exactly the eligible ready "
                                          "peers (default callback: the peer with the fewest requests so far)", "event": ev[:200],
                                  "real": outs[0][0], "expected": ranked[0],
                                  "counts": str({c: reqs_from.get(c, 0) for c in eligible})})
            if not eligible:
                if outs or not any("NotRoutable" in r for r in raised):
                    fails.append({"what": "request sent although no eligible ready peer exists (or no not-routable error raised)",
                                  "event": ev[:200], "real": str([(c, d['hbh']) for c, d in outs]) + str(raised)})
            else:
                if len(outs) != 1 or outs[0][0] not in eligible:
                    fails.append({"what": "request not sent to exactly one eligible (configured for application+realm, or default) "
                                          "ready peer", "event": ev[:200], "real": str([(c, d['hbh']) for c, d in outs]) + str(raised),
                                  "eligible": str(eligible)})
                else:
                    c, d = outs[0]
                    hbh = int(d["hbh"])
                    want_app = m["app"] or cfg["apps"][ai]["id"]
                    if int(d["app"]) != want_app or (m["e2e"] and int(d["e2e"]) != m["e2e"]) or int(d["e2e"]) == 0:
                        fails.append({"what": "identifiers of the request as written: the caller's application id / end-to-end id "
                                              "are kept when given, else the application's id and a fresh non-zero end-to-end id",
                                      "event": ev[:200], "real": str(d), "expected": f"app={want_app}"})
                    if hbh == 0 or hbh in outstanding.get(c, set()):
                        fails.append({"what": "hop-by-hop identifier zero or not unique among the requests outstanding on the connection",
                                      "event": ev[:200], "real": str(d)})
                    outstanding.setdefault(c, set()).add(hbh)
                    sent_by[(hbh, int(d["e2e"]))] = ai
                    # what the blocked sender got
                    got = [kv(l) for l in lines if l.startswith(f"APP a{ai} GOT")]
                    answered_in_wait = False
                    collide = False
                    for w in t[4:]:
                        wt = w.lstrip("!").replace("_", " ").split(" ")
                        if wt[0] == "rx":
                            am = parse_msg(wt[2])
                            if not am["R"] and am["hbh"] == hbh and am["e2e"] == int(d["e2e"]):
                                answered_in_wait = True
                            if not am["R"] and am["hbh"] == hbh and am["e2e"] != int(d["e2e"]):
                                collide = True
                    if answered_in_wait and (len(got) != 1 or int(got[0]["hbh"]) != hbh or int(got[0]["e2e"]) != int(d["e2e"])):
                        fails.append({"what": "blocked sender did not receive exactly the answer bearing its identifiers",
                                      "event": ev[:300], "real": str(got) + str(raised)})
                    if not answered_in_wait and got:
                        fails.append({"what": "blocked sender received an answer that does not bear its identifiers",
                                      "event": ev[:300], "real": str(got), "sig": "answer_waiting_hbh_only" if collide else None})
        if t[0] == "rx":
            for dmsg in t[2:]:
                try:
                    if parse_msg(dmsg)["R"]:
                        reqs_from[f"c{t[1]}"] = reqs_from.get(f"c{t[1]}", 0) + 1
                except Exception:  # noqa
                    pass
        if t[0] == "rx" and len(t) == 3:
            m = parse_msg(t[2])
            if not m["R"] and m["cmd"] == 272:
                anss = [l for l in lines if l.startswith("APP ") and " ANS " in l]
                owner = sent_by.get((m["hbh"], m["e2e"]))
                c = f"c{t[1]}"
                if state.get(c) in ("READY", "WAITDWA", "DISCONNECTING"):
                    want = [f"APP a{owner} ANS cmd=272 hbh={m['hbh']} e2e={m['e2e']}"] if owner is not None else []
                    if anss != want:
                        fails.append({"what": "an answer nobody waits for was not passed to (only) the unexpected-answer handler of "
                                              "the application that sent the request", "event": ev[:200], "real": str(anss),
                                      "expected": str(want)})
        for l in lines:
            if l.startswith("CONN "):
                c = l.split(" ")[1]
                d = kv(l)
                state[c] = d["state"]
                ident[c] = d["ident"] if d["ident"] != "-" else d["name"]
    return fails


def scenarios(rng: random.Random, tier: str):
    out = []
    h = [900]

    def n():
        h[0] += 1
        return h[0]
    # one application registered (in one call) for peers of different realms, another with an extra realm
    CFGX = ("NODE host=node.local;realm=realm.local;idle=9999;"
            "peer:peer1.x,realm.local,0,0,30,1,0,-,-,-,-;peer:peer2.x,realm2.local,0,0,30,1,0,-,-,-,-;"
            "peer:peer3.x,realm3.local,0,0,30,1,1,-,-,-,-;peer:peer4.x,realm.local,0,0,30,1,0,-,-,-,-;"
            "app:4,1,0,b,0,0+1+2,-;app:4,1,0,b,0,3+1,nowhere.local;app:3,0,1,b,0,-,-")
    for rep in range(150 if tier == "quick" else 3000):
        up = [i for i in range(4) if rng.random() < 0.7]
        cfg_ = CFG if rep % 3 else CFGX
        pre = cfg_ + " | start"
        conn_of = {}
        for k, i in enumerate(up):
            pre += f" | acc | rx {k} " + nodegen.cer(NAMES[i], "4+3", n(), n(), extra=",acct=3")
            conn_of[i] = k
        evs = []
        sent = []
        for _ in range(rng.randrange(1, 5)):
            ai = rng.choice([0, 0, 1, 2])
            realm = rng.choice(["realm.local", "realm.local", "realm2.local", "nowhere.local", "realm3.local"])
            e2e = rng.choice([0, 0, n()])
            # (a request whose header carries no application id gets the application's)
            msg = nodegen.ccr(0, e2e, "node.local", realm, app=rng.choice([4, 4, 0]))
            if rng.random() < 0.3:
                # a Destination-Host in the request (any peer, ready or not, eligible or not, or nobody the node knows)
                # changes nothing about where it may go
                msg += ",dh=" + rng.choice(NAMES + ["nobody.x"])
            wait = []
            k = rng.random()
            # the harness cannot know the hop-by-hop id the node will draw; answers are scripted from the
            # deterministic generator start values (2000 + 1000*k per connection, first draw +1)
            if k < 0.6 and up:
                wait = ["ANSWER"]
            evs.append((ai, msg, rng.choice([1, 5]), wait))
        # render: answers are filled in by a dry run on the real node? keep simple: answer events use placeholders
        line = pre
        for ai, msg, tmo, wait in evs:
            line += f" | req {ai} {msg} {tmo}"
        # state changes in between
        if rng.random() < 0.3 and up:
            line += f" | rx {rng.randrange(len(up))} " + nodegen.dpr(n(), n(), NAMES[up[0]])
            line += f" | req 0 " + nodegen.ccr(0, 0, "node.local") + " 1"
        out.append(line)
    # answers: deterministic ids (connection k's generator starts at 2000+1000k; e2e generator at 268435463)
    for rep in range(40 if tier == "quick" else 600):
        pre = CFG + " | start | acc | rx 0 " + nodegen.cer("peer2.x", "4", n(), n()) + " | acc | rx 1 " + nodegen.cer("peer3.x", "4", n(), n())
        hb0, hb1, e = 2001, 3001, 268435464
        kind = rng.randrange(6)
        if kind == 0:      # answer arrives in time
            line = pre + f" | req 0 {nodegen.ccr(0, 0, 'node.local')} 5 rx_0_{nodegen.cca(hb0, e, 'peer2.x')}"
        elif kind == 1:    # late answer -> unexpected-answer handler of the sender
            line = pre + f" | req 0 {nodegen.ccr(0, 0, 'node.local')} 1 | rx 0 {nodegen.cca(hb0, e, 'peer2.x')}"
        elif kind == 2:    # duplicated answer
            line = pre + f" | req 0 {nodegen.ccr(0, 0, 'node.local')} 5 rx_0_{nodegen.cca(hb0, e, 'peer2.x')} | rx 0 {nodegen.cca(hb0, e, 'peer2.x')}"
        elif kind == 3:    # unknown identifiers
            line = pre + f" | req 0 {nodegen.ccr(0, 0, 'node.local')} 2 rx_0_{nodegen.cca(777, 888, 'peer2.x')} | rx 0 {nodegen.cca(hb0, 999, 'peer2.x')}"
        elif kind == 4:    # two apps, two connections, answers in reverse order
            line = (pre + f" | req 0 {nodegen.ccr(0, 0, 'node.local')} 1 | req 1 {nodegen.ccr(0, 0, 'node.local', 'realm2.local')} 1"
                    f" | rx 1 {nodegen.cca(hb1, e + 1, 'peer3.x')} | rx 0 {nodegen.cca(hb0, e, 'peer2.x')}")
        else:              # same hop-by-hop value on another connection, different end-to-end id, while blocked
            line = pre + f" | req 0 {nodegen.ccr(0, 0, 'node.local')} 2 rx_1_{nodegen.cca(hb0, 4711, 'peer3.x')}"
        out.append(line)
    # an application without peers of its own sends through the realm's default peer: the answer (in time, late, duplicated)
    # is its answer and nobody else's
    pre = CFG + " | start | acc | rx 0 " + nodegen.cer("peer1.x", "4+3", n(), n(), extra=",acct=3") + " | acc | rx 1 " + nodegen.cer("peer2.x", "4", n(), n())
    hb0, e = 2001, 268435464
    rq = nodegen.ccr(0, 0, "node.local", app=3)
    an = nodegen.cca(hb0, e, "peer1.x")
    out.append(pre + f" | req 2 {rq} 5 rx_0_{an}")
    out.append(pre + f" | req 2 {rq} 1 | rx 0 {an}")
    out.append(pre + f" | req 2 {rq} 5 rx_0_{an} | rx 0 {an} | rx 0 {an}")
    out.append(pre + f" | req 2 {rq} 1 | req 0 {nodegen.ccr(0, 0, 'node.local')} 1 | rx 0 {an}")
    # the connection's hop-by-hop generator at and just below its maximum: three requests across the wrap
    for start in (4294967295, 4294967294, 4294967293):
        pre = CFG + " | start | acc | rx 0 " + nodegen.cer("peer2.x", "4", n(), n()) + f" | sethbh 0 {start}"
        out.append(pre + " | " + " | ".join(f"req 0 {nodegen.ccr(0, 0, 'node.local')} 1" for _ in range(3)))
    # two outstanding requests of one application on two connections whose generators coincide (nested send while blocked)
    cfg2 = ("NODE host=node.local;realm=realm.local;idle=9999;peer:peer2.x,realm.local,0,0,30,1,0,-,-,-,-;"
            "peer:peer3.x,realm2.local,0,0,30,1,0,-,-,-,-;app:4,1,0,b,0,0+1,-")
    pre = cfg2 + " | start | acc | rx 0 " + nodegen.cer("peer2.x", "4", n(), n()) + " | acc | rx 1 " + nodegen.cer("peer3.x", "4", n(), n()) + " | sethbh 1 2000"
    inner = ("req_0_" + nodegen.ccr(0, 0, "node.local", "realm2.local") + "_2_" +
             "rx~0~" + nodegen.cca(2001, 268435464, "peer2.x"))
    out.append(pre + f" | req 0 {nodegen.ccr(0, 0, 'node.local')} 3 {inner}")
    # … and of two *different* applications (same id, one peer each) whose connections' generators coincide: each
    # application has its own senders -- the answer to the outer request releases the outer sender only
    cfg3 = ("NODE host=node.local;realm=realm.local;idle=9999;peer:peer2.x,realm.local,0,0,30,1,0,-,-,-,-;"
            "peer:peer3.x,realm2.local,0,0,30,1,0,-,-,-,-;app:4,1,0,b,0,0,-;app:4,1,0,b,0,1,-")
    pre3 = cfg3 + " | start | acc | rx 0 " + nodegen.cer("peer2.x", "4", n(), n()) + " | acc | rx 1 " + nodegen.cer("peer3.x", "4", n(), n()) + " | sethbh 1 2000"
    inner3 = ("req_1_" + nodegen.ccr(0, 0, "node.local", "realm2.local") + "_2_" +
              "rx~0~" + nodegen.cca(2001, 268435464, "peer2.x"))
    out.append(pre3 + f" | req 0 {nodegen.ccr(0, 0, 'node.local')} 3 {inner3}")
    inner3b = ("req_1_" + nodegen.ccr(0, 0, "node.local", "realm2.local") + "_2_" +
               "rx~1~" + nodegen.cca(2001, 268435465, "peer3.x"))
    out.append(pre3 + f" | req 0 {nodegen.ccr(0, 0, 'node.local')} 3 {inner3b}")
    # the answer comes back while the request is still being handed to the connection (a very fast peer / the sender
    # preempted right there): it is the sender's answer all the same
    prev = CFG + " | start | acc | rx 0 " + nodegen.cer("peer2.x", "4", n(), n())
    out.append(prev + f" | req 0 {nodegen.ccr(0, 0, 'node.local')} 3 !rx_0_{nodegen.cca(2001, 268435464, 'peer2.x')}")
    out.append(prev + f" | req 0 {nodegen.ccr(0, 0, 'node.local')} 3 !rx_0_{nodegen.cca(2001, 268435464, 'peer2.x')}" +
               f" | rx 0 {nodegen.cca(2001, 268435464, 'peer2.x')}")
    # a default peer added without a realm name (it gets the node's realm): applications without peers of their own in that
    # realm send through it
    nodef = CFG.replace("peer:peer1.x,realm.local,0,0,30,1,1", "peer:peer1.x,-,0,0,30,1,1")
    pren = nodef + " | start | acc | rx 0 " + nodegen.cer("peer1.x", "4+3", n(), n(), extra=",acct=3")
    out.append(pren + f" | req 2 {nodegen.ccr(0, 0, 'node.local', app=3)} 1 | req 1 {nodegen.ccr(0, 0, 'node.local')} 1")
    out.append(pren + f" | req 2 {nodegen.ccr(0, 0, 'node.local', app=3)} 5 rx_0_{nodegen.cca(2001, 268435464, 'peer1.x')}")
    # Destination-Host naming a ready peer that is not configured for the submitting application (and one that is)
    predh = (CFG + " | start | acc | rx 0 " + nodegen.cer("peer2.x", "4", n(), n()) + " | acc | rx 1 " + nodegen.cer("peer3.x", "4", n(), n()) +
             " | acc | rx 2 " + nodegen.cer("peer4.x", "4", n(), n()))
    for dh in ("peer3.x", "peer4.x", "peer1.x", "nobody.x"):
        out.append(predh + f" | req 0 {nodegen.ccr(0, 0, 'node.local')},dh={dh} 1 | req 1 {nodegen.ccr(0, 0, 'node.local', 'realm2.local')},dh={dh} 1")
    # two ready peers of one application, one of them awaiting the answer to the node's own watchdog request: both are
    # eligible, the default callback takes the one that has sent fewer requests
    lb = ("NODE host=node.local;realm=realm.local;idle=9999;dwa=9999;peer:peer2.x,realm.local,0,0,30,1,0,-,-,-,5;"
          "peer:peer3.x,realm.local,0,0,30,1,0,-,-,-,-;app:4,1,0,b,0,0+1,-")
    for busy, quiet in ((1, 0), (0, 1)):
        prel = lb + " | start | acc | rx 0 " + nodegen.cer("peer2.x", "4", n(), n()) + " | acc | rx 1 " + nodegen.cer("peer3.x", "4", n(), n())
        chat = " | ".join(f"rx {busy} " + nodegen.dwr(n(), n(), NAMES[busy + 1]) for _ in range(4))
        # (after 6 s the connection of peer2 has been idle for longer than its 5 s: DWR sent, awaiting the DWA)
        out.append(prel + f" | adv 6 | {chat} | req 0 {nodegen.ccr(0, 0, 'node.local')} 1 | req 0 {nodegen.ccr(0, 0, 'node.local')} 1")
    # the peer starts the disconnect while a request is outstanding: its answer still arrives (in time / late)
    pred = CFG + " | start | acc | rx 0 " + nodegen.cer("peer2.x", "4", n(), n())
    hb0, e = 2001, 268435464
    out.append(pred + f" | req 0 {nodegen.ccr(0, 0, 'node.local')} 5 rx_0_{nodegen.dpr(n(), n(), 'peer2.x')} rx_0_{nodegen.cca(hb0, e, 'peer2.x')}")
    out.append(pred + f" | req 0 {nodegen.ccr(0, 0, 'node.local')} 1 | rx 0 {nodegen.dpr(n(), n(), 'peer2.x')} | rx 0 {nodegen.cca(hb0, e, 'peer2.x')}")
    # the same two outstanding requests with the generators as the node starts them (no sethbh): the identifiers the node
    # draws are learnt from a dry run without the answer, then the answer to the outer request arrives while the inner sender
    # is blocked on the other connection - each sender gets its own answer or times out
    pre = cfg2 + " | start | acc | rx 0 " + nodegen.cer("peer2.x", "4", n(), n()) + " | acc | rx 1 " + nodegen.cer("peer3.x", "4", n(), n())
    for warm in (0, 1, 2):
        w = "".join(f" | req 0 {nodegen.ccr(0, 0, 'node.local', r)} 1" for _ in range(warm) for r in ("realm.local", "realm2.local"))
        dry = pre + w + f" | req 0 {nodegen.ccr(0, 0, 'node.local')} 3 req_0_" + nodegen.ccr(0, 0, "node.local", "realm2.local") + "_2"
        hb, e = 2001 + warm, 268435464 + 2 * warm
        try:
            reqs = [kv(l) for l in nodecheck.run_real(dry) if l.startswith("OUT c0 ") and " cmd=272 " in l and " R=1 " in l]
            hb, e = int(reqs[-1]["hbh"]), int(reqs[-1]["e2e"])
        except Exception:
            pass
        inner = ("req_0_" + nodegen.ccr(0, 0, "node.local", "realm2.local") + "_2_" + "rx~0~" + nodegen.cca(hb, e, "peer2.x"))
        out.append(pre + w + f" | req 0 {nodegen.ccr(0, 0, 'node.local')} 3 {inner}")
    return out


def run(res: Result, tier: str, seed: int):
    rng = random.Random(seed * 1000003 + 10)
    res.rule = ("3 applications x 4 peers in 2 realms with random per-peer connection states, default peers; 1..4 requests per "
                "history, DPR in between; answers arriving in time, late, duplicated, with unknown identifiers, in reverse order, "
                "and with a foreign end-to-end id (scripted from the deterministic generator starts); oracle computes eligibility "
                "from the configuration; real vs model on OUT/APP")
    fails, div = nodecheck.run(res, scenarios(rng, tier), KEEP, oracle)
    cf, cd = concurrent_senders(res, tier)
    return fails + cf, div + cd


def concurrent_senders(res: Result, tier: str):
    """2..3 application threads sending on one connection at the same time: each request's hop-by-hop id is drawn from the
    connection's generator (`route_request`: `conn.hop_by_hop_seq.next_sequence()`).  The current source of that method is
    stepped line by line under every interleaving with a bounded number of preemptions; the ids the callers get must be
    non-zero and pairwise distinct (they are all outstanding at once); each schedule is replayed on the Lean interpreter of
    the extracted line skeleton."""
    import c16
    import linesched
    from common import run_driver
    fails, div, lines, reals = [], [], [], []
    h = c16.helpers()
    res.rule += ("; 2..3 threads drawing hop-by-hop ids from one connection's generator (current source of next_sequence stepped "
                 "line by line, every interleaving with up to 3 preemptions): distinct and non-zero; schedules replayed on the "
                 "Lean interpreter of the extracted skeleton")
    try:
        with linesched.deadline(300 if tier == "quick" else 1800):
            steppers = {"seq": linesched.stepper(h.SequenceGenerator.next_sequence, inline_calls=True)}
            total = 0
            for (nthr, k, bound) in ([(2, 1, 3), (2, 2, 2), (3, 1, 2)] if tier == "quick" else [(2, 1, 3), (2, 2, 3), (3, 1, 3), (4, 1, 2)]):
                for start in (5, c16.SEQ_MAX - 1):
                    def on_run(threads, trace, start=start, nthr=nthr):
                        outs = c16.outputs("seq", threads)
                        sched = [c for c, _, _ in trace]
                        lines.append(f"GENSCHED seq {start} {nthr} " + ",".join(map(str, sched)))
                        reals.append("|".join(",".join(map(str, o)) for o in outs))
                        bad = c16.check_outputs("seq", outs, c16.SEQ_MAX)
                        if bad:
                            fails.append({"what": "requests sent concurrently on one connection: " + bad +
                                                  " (hop-by-hop ids of requests outstanding on the connection are not unique)",
                                          "kind": "schedule", "start": start, "threads": nthr, "schedule": sched, "real": str(outs),
                                          "line": f"next_sequence x{nthr} from {start}, schedule {sched}"})
                            return True
                        return False
                    runs, _ = linesched.explore(lambda: c16.make_threads("seq", start, nthr, k, steppers)[1], bound, on_run,
                                                max_runs=1500 if tier == "quick" else 30000)
                    total += runs
            res.count("concurrent senders: generator schedules", total)
    except linesched.StepHang as e:
        fails.append({"what": f"a sender drawing a hop-by-hop identifier never returns under some schedule ({e})", "kind": "hang",
                      "line": "next_sequence"})
    outs = run_driver(lines) if lines else []
    for line, r, m in zip(lines, reals, outs):
        res.cases += 1
        mm = m.split(" seq=")[0]
        if r != mm:
            div.append({"line": line[:300], "real": r, "model": mm})
        else:
            res.nontrivial.add(line)
    res.traces_validated += len(lines)
    return fails[:5], div[:5]


def signature(f: dict):
    return f.get("sig")


def search(res: Result, seed: int, broken) -> list:
    rng = random.Random(seed * 7919 + 79)
    r2 = Result(PROP, "thorough", seed)
    fails, _ = nodecheck.run(r2, scenarios(rng, "quick"), KEEP, oracle)
    return fails
