"""C01 — AVP value <-> wire codec: correspondence + direct RFC oracle."""
from __future__ import annotations

import random

from common import Result, run_driver
import gen
from gen import rfc_data, rfc_wire, canonical_value

PROP = "C01"
MODULES = ["DV.Properties.C01", "DV.Properties.C01Tables"]


from codecdiff import Diff, entries, build_pool


def run_cases(res: Result, rng: random.Random, per_entry: int, n_raw: int, oracle_fail: list):
    from realcodec import ty_of, TY_TAG, A
    d = Diff(res)
    ents = entries()
    pool = build_pool(d, rng)

    for code, vendor, e in ents:
        ty = ty_of(e["type"](0))
        res.count(f"type:{ty}")
        vals = gen.valid_values(ty, rng, per_entry, avp_pool=pool)
        rng.shuffle(vals)
        vals = vals[:per_entry]
        for lit in vals:
            m = rng.choice([0, 0, 1, 2])
            p = rng.choice([0, 0, 1, 2])
            r1 = d.add(f"AVPNEW {code} {vendor} {lit} {m} {p}")
            if r1.startswith("EXC"):
                oracle_fail.append({"what": "valid value rejected", "line": f"AVPNEW {code} {vendor} {lit} {m} {p}", "real": r1})
                continue
            hexs = d.add(f"AVPENC {r1}")
            # oracle: RFC wire form
            dm = e.get("mandatory")
            want_m = (m == 1) or (m == 0 and dm is True)
            flags = (0x80 if vendor else 0) | (0x40 if want_m else 0) | (0x20 if p == 1 else 0)
            try:
                want = rfc_wire(code, vendor, flags, rfc_data(ty, lit)).hex()
            except Exception as ex:  # noqa
                want = f"<oracle error {ex}>"
            if hexs != want:
                oracle_fail.append({"what": "wire form differs from RFC 6733 layout",
                                    "line": f"AVPNEW {code} {vendor} {lit} {m} {p}", "real": hexs, "rfc": want})
                continue
            rest = gen.rand_bytes(rng, rng.choice([0, 0, 4, 9])).hex()
            r3 = d.add(f"AVPDEC {hexs}{rest}")
            if r3.startswith("EXC"):
                oracle_fail.append({"what": "own encoding does not decode", "line": f"AVPDEC {hexs}{rest}", "real": r3})
                continue
            obj, pos, dty, _nm = r3.split(" ")
            if obj != r1 or int(pos) != len(hexs) // 2 or int(dty) != ty:
                oracle_fail.append({"what": "decode differs from what was encoded (code/vendor/flags/payload/type/position)",
                                    "line": f"AVPDEC {hexs}{rest}", "real": r3, "expected": f"{r1} {len(hexs)//2} {ty}"})
                continue
            payload = obj.split(".")[3]
            r4 = d.add(f"AVPVAL {ty} {payload}")
            if r4 != canonical_value(ty, lit):
                oracle_fail.append({"what": "decoded value differs from encoded value",
                                    "line": f"AVPVAL {ty} {payload}", "real": r4, "expected": canonical_value(ty, lit)})
            r5 = d.add(f"AVPENC {obj}")
            if r5 != hexs:
                oracle_fail.append({"what": "re-encoding differs", "line": f"AVPENC {obj}", "real": r5, "expected": hexs})
        # out-of-domain values must be rejected
        if rng.random() < 0.25 or per_entry > 8:
            for lit in gen.invalid_values(ty):
                line = f"AVPNEW {code} {vendor} {lit} 0 0"
                r = d.add(line)
                res.count("ood")
                if not r.startswith("EXC"):
                    oracle_fail.append({"what": "out-of-domain value accepted (truncated/wrapped instead of rejected)",
                                        "line": line, "real": r})
    # direct setter / getter per type (exception classes of the raw setters)
    for ty in range(1, 12):
        for lit in gen.valid_values(ty, rng, 12, avp_pool=pool) + gen.invalid_values(ty):
            r = d.add(f"AVPSET {ty} {lit}")
            if not r.startswith("EXC"):
                d.add(f"AVPVAL {ty} {r}")
    # raw well-formed wire AVPs (unknown codes, reserved flag bits, every length residue)
    for i in range(n_raw):
        k = rng.random()
        if k < 0.4:
            code, vendor, e = rng.choice(ents)
        elif k < 0.6:
            # a dictionary code under a vendor that does not define it (unknown
            # vendor, another vendor's dictionary, or no vendor): must stay untyped
            code, _v, _e = rng.choice(ents)
            vendor = rng.choice([0, 99999, 10415, 13019, 5535, 4242424242])
            import realcodec as _rc
            e = (_rc.D.AVP_DICTIONARY.get(code) if vendor == 0
                 else _rc.D.AVP_VENDOR_DICTIONARY.get(vendor, {}).get(code))
        else:
            code = rng.choice([0, 1, rng.getrandbits(32), 2**32 - 1])
            vendor = rng.choice([0, 0, rng.getrandbits(32) or 1])
            e = None
        import realcodec as _rc
        e = (_rc.D.AVP_DICTIONARY.get(code) if vendor == 0
             else _rc.D.AVP_VENDOR_DICTIONARY.get(vendor, {}).get(code))
        ty = 0
        if e is not None:
            ty = ty_of(e["type"](0))
        n = rng.choice(gen.lengths(rng, 14, 300))
        data = gen.rand_bytes(rng, n)
        flags = (rng.getrandbits(8) & 0x7f) | (0x80 if vendor else 0)
        wire = rfc_wire(code, vendor, flags, data).hex()
        r = d.add(f"AVPDEC {wire}")
        if r.startswith("EXC"):
            oracle_fail.append({"what": "well-formed AVP does not decode", "line": f"AVPDEC {wire}", "real": r})
            continue
        obj, pos, dty, _ = r.split(" ")
        want_obj = f"{code}.{vendor}.{flags}.{data.hex()}"
        if int(dty) != ty:
            fails_here = {"what": "decoded AVP is not an instance of the dictionary's type for (code, vendor) "
                                  "(untyped for pairs the dictionary does not define)",
                          "line": f"AVPDEC {wire}", "real": r, "expected_type_tag": ty}
            oracle_fail.append(fails_here)
            continue
        if obj != want_obj or int(pos) != len(wire) // 2:
            oracle_fail.append({"what": "decode of well-formed AVP differs from the wire", "line": f"AVPDEC {wire}",
                                "real": r, "expected": want_obj})
            continue
        r2 = d.add(f"AVPENC {obj}")
        if r2 != wire:
            oracle_fail.append({"what": "re-encoding a decoded well-formed AVP differs from input",
                                "line": f"AVPENC {obj}", "real": r2, "expected": wire})
        d.add(f"AVPVAL {ty} {data.hex()}")
    # run-time registration (definitions registered at run time are part of the quantifier; they are not in the
    # generated tables, so this part is judged by the direct oracle only): unknown before, typed after, overwritable
    try:
        import realcodec
        from diameter.message.avp import avp as A2
        import gen as G

        def use(code, vendor, payload):
            """how the pair is treated right now: (class name of the decoded AVP, whether Avp.new knows it)"""
            w = G.rfc_wire(code, vendor, (0x80 if vendor else 0), payload)
            dec = A2.Avp.from_bytes(w)
            grp = A2.Avp.from_bytes(G.rfc_wire(456, 0, 0x40, w)).value[0]       # the same AVP inside a grouped one
            try:
                A2.Avp.new(code, vendor)
                known = True
            except ValueError:
                known = False
            return type(dec).__name__, type(grp).__name__, known
        problems = []
        for code, vendor in ((90000001, 4242424), (90000002, 0), (90000003, 10415)):
            before = use(code, vendor, b"\x00\x00\x00\x07")
            if before != ("Avp", "Avp", False):
                problems.append(f"({code},{vendor}) before registration: {before}")
            A2.register(code, "X-Verif-Test", A2.AvpUnsigned32, vendor=vendor or None, mandatory=True)
            after = use(code, vendor, b"\x00\x00\x00\x07")
            a = A2.Avp.new(code, vendor, value=7)
            b = A2.Avp.from_bytes(a.as_bytes())
            if after != ("AvpUnsigned32", "AvpUnsigned32", True) or type(b) is not A2.AvpUnsigned32 or b.value != 7 \
                    or not b.is_mandatory or b.vendor_id != vendor:
                problems.append(f"({code},{vendor}) after registration: {after} {type(b).__name__}")
            # overwriting an existing definition (documented): the new type applies from then on
            A2.register(code, "X-Verif-Test", A2.AvpUnsigned64, vendor=vendor or None, mandatory=True)
            c = A2.Avp.new(code, vendor, value=2 ** 40)
            e = A2.Avp.from_bytes(c.as_bytes())
            if type(e) is not A2.AvpUnsigned64 or e.value != 2 ** 40 or len(c.payload) != 8:
                problems.append(f"({code},{vendor}) after re-registration as Unsigned64: {type(e).__name__}")
            A2.register(code, "X-Verif-Test", A2.AvpUtf8String, vendor=vendor or None)
            f = A2.Avp.from_bytes(A2.Avp.new(code, vendor, value="x").as_bytes())
            if type(f) is not A2.AvpUtf8String or f.value != "x" or f.is_mandatory:
                problems.append(f"({code},{vendor}) after re-registration as UTF8String: {type(f).__name__}")
            res.count("register")
        # a registration concerns its own (code, vendor) pair only: the same code under every other vendor -- vendors whose
        # table ships empty, populated ones, none at all -- is as unknown as before (and the other way round)
        vendors = sorted(v for v in D_vendor() if v) + [5555555]
        empties = [v for v in vendors if v in D_vendor() and not D_vendor()[v]]
        for v1 in (empties[:3] + [10415, 5555555]):
            code = 90000100 + (v1 % 89)
            others = [v for v in vendors + [0] if v != v1]
            before = {v: use(code, v, b"\x00\x00\x00\x07") for v in others}
            A2.register(code, "X-Verif-Sibling", A2.AvpUnsigned32, vendor=v1)
            if use(code, v1, b"\x00\x00\x00\x07") != ("AvpUnsigned32", "AvpUnsigned32", True):
                problems.append(f"({code},{v1}) not typed after its registration")
            changed = [v for v in others if use(code, v, b"\x00\x00\x00\x07") != before[v]]
            if changed:
                problems.append(f"registering ({code},{v1}) changed how the code is treated under vendor(s) {changed[:6]}")
            D_vendor()[v1].pop(code, None)
            res.count("register-sibling")
        D_vendor().pop(5555555, None)
        del D_vendor()[4242424]
        del realcodec.D.AVP_DICTIONARY[90000002]
        del D_vendor()[10415][90000003]
        if problems:
            oracle_fail.append({"what": "run-time registration not honoured by Avp.new / from_bytes (unknown before, typed after, "
                                        "overwritable): " + "; ".join(problems)[:600], "line": "register()"})
    except Exception as ex:  # noqa
        oracle_fail.append({"what": f"register() raised {type(ex).__name__}: {ex}", "line": "register()"})
    # Grouped AVPs built in place -- the documented idiom `grp.value.append(member)` on a new, member-less AVP --, several in
    # a row (the list is assigned back to encode it), and member-less ones decoded in between: each carries exactly its own
    # members (direct oracle: independent parser)
    try:
        from diameter.message.avp import avp as A3
        import gen as G3
        problems = []
        for k in range(5):
            g = A3.Avp.new(456, 0)
            mine = [A3.Avp.new(432, 0, value=100 + k)] + ([A3.Avp.new(439, 0, value=k)] if k % 2 else [])
            for m_ in mine:
                g.value.append(m_)
            g.value = g.value              # (the members are encoded into the payload when the list is assigned)
            outer = G3.rfc_parse_avps(g.as_bytes())
            inner = [(c, v, dt) for c, v, f, dt in G3.rfc_parse_avps(outer[0][3])]
            want = [(m_.code, m_.vendor_id, m_.payload) for m_ in mine]
            if inner != want:
                problems.append(f"Grouped AVP #{k} built with value.append(): wire members {[(c, v) for c, v, _ in inner]} instead of "
                                f"{[(c, v) for c, v, _ in want]}")
            e = A3.Avp.from_bytes(G3.rfc_wire(456, 0, 0x40, b""))
            if list(e.value) != []:
                problems.append(f"a member-less Grouped AVP decodes with {len(e.value)} member(s)")
            full = A3.Avp.from_bytes(G3.rfc_wire(456, 0, 0x40, G3.rfc_wire(432, 0, 0x40, (7).to_bytes(4, "big"))))
            if [(x.code, x.payload) for x in full.value] != [(432, (7).to_bytes(4, "big"))]:
                problems.append("a Grouped AVP decoded after in-place built ones does not return its own member")
            res.count("grouped-in-place")
        if problems:
            oracle_fail.append({"what": "Grouped AVPs built or decoded one after the other share members: " + "; ".join(problems)[:500],
                                "line": "Avp.new(456).value.append(...)"})
    except Exception as ex:  # noqa
        oracle_fail.append({"what": f"building a Grouped AVP in place raised {type(ex).__name__}: {ex}", "line": "Avp.new(456).value.append(...)"})
    for s in d.lines[:3] + d.lines[len(d.lines) // 2: len(d.lines) // 2 + 2]:
        res.sample({"line": s[:300]})
    return d


def D_vendor():
    import realcodec
    return realcodec.D.AVP_VENDOR_DICTIONARY


def run(res: Result, tier: str, seed: int):
    rng = random.Random(seed * 1000003 + 1)
    per_entry = 3 if tier == "quick" else 24
    n_raw = 1500 if tier == "quick" else 30000
    res.rule = ("every dictionary entry x type-directed values (boundaries first) x M/P choices: Avp.new -> as_bytes -> "
                "from_bytes -> value -> re-encode, real vs model, plus RFC 6733 layout oracle; out-of-domain values; raw "
                "well-formed wire AVPs incl. unknown codes; non-trivial = distinct case lines the real code did not reject")
    oracle_fail: list = []
    d = run_cases(res, rng, per_entry, n_raw, oracle_fail)
    div = d.compare()
    return oracle_fail, div


def signature(f: dict):
    """Known-finding signatures (see known_findings.txt)."""
    line = f.get("line", "")
    if f.get("what", "").startswith("out-of-domain value accepted"):
        toks = line.split(" ")
        if toks[0] in ("AVPNEW", "AVPSET"):
            lit = toks[3] if toks[0] == "AVPNEW" else toks[2]
            if lit.startswith("t:"):
                t = int(lit[2:])
                if not (gen.TIME_MIN <= t <= gen.TIME_MAX):
                    return "time_out_of_window_wraps"
    return None


def search(res: Result, seed: int, broken) -> list:
    """Failing-input search when an obligation or the correspondence broke:
    the thorough-size generators with the RFC oracle."""
    rng = random.Random(seed * 7919 + 17)
    fails: list = []
    r2 = Result(PROP, "thorough", seed)
    run_cases(r2, rng, 16, 8000, fails)
    res.extra["search_cases"] = r2.cases
    return fails
