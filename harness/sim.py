"""Scenario runner: executes a scenario line on the real node inside the virtual
environment of vnode.py and prints canonical observation lines (same text the
Lean driver prints for the model)."""
from __future__ import annotations

import errno

import gen
import vnode
from vnode import Env, VSocket, StopLoop, InertThread, OneShotQueue, DeadlockError
import diameter.node.node as node_mod
import diameter.node.peer as peer_mod
import diameter.node.application as app_mod
from diameter.message import Message, constants

CMD = {"CE": 257, "DW": 280, "DP": 282, "CC": 272, "AC": 271, "UN": 999, "MO": 8388733}
STATE = {peer_mod.PEER_CONNECTING: "CONNECTING", peer_mod.PEER_CONNECTED: "CONNECTED", peer_mod.PEER_READY: "READY",
         peer_mod.PEER_READY_WAITING_DWA: "WAITDWA", peer_mod.PEER_DISCONNECTING: "DISCONNECTING",
         peer_mod.PEER_CLOSING: "CLOSING", peer_mod.PEER_CLOSED: "CLOSED"}
REASON = {None: "-", 0x20: "DPR", 0x21: "SHUTDOWN", 0x22: "CLEAN", 0x30: "SOCKFAIL", 0x31: "GONE", 0x32: "FAILCONN",
          0x33: "FAILCE", 0x34: "REJECTED", 0x35: "DWATO", 0x40: "UNKNOWN"}


def u32(n):
    return int(n).to_bytes(4, "big")


def build_msg(desc: str) -> bytes:
    """cmd:flags:app:hbh:e2e:k=v,k=v…  →  wire bytes of a well-formed message.
    keys: oh or dh dr rc auth acct sid ip vid pn dc sc rt rn ex(unknown AVP)"""
    if desc.startswith("X"):
        return bytes.fromhex(desc[1:])
    parts = desc.split(":")
    cmd = CMD.get(parts[0], None) or int(parts[0])
    flags, app, hbh, e2e = int(parts[1]), int(parts[2]), int(parts[3]), int(parts[4])
    avps = []
    kv = [x for x in (parts[5].split(",") if len(parts) > 5 and parts[5] else [])]
    for item in kv:
        k, v = item.split("=", 1)
        if k == "sid":
            avps.append(gen.rfc_wire(263, 0, 0x40, v.encode()))
        elif k == "oh":
            avps.append(gen.rfc_wire(264, 0, 0x40, v.encode()))
        elif k == "or":
            avps.append(gen.rfc_wire(296, 0, 0x40, v.encode()))
        elif k == "dh":
            avps.append(gen.rfc_wire(293, 0, 0x40, v.encode()))
        elif k == "dr":
            avps.append(gen.rfc_wire(283, 0, 0x40, v.encode()))
        elif k == "rc":
            avps.append(gen.rfc_wire(268, 0, 0x40, u32(v)))
        elif k == "auth":
            for a in v.split("+"):
                avps.append(gen.rfc_wire(258, 0, 0x40, u32(a)))
        elif k == "acct":
            for a in v.split("+"):
                avps.append(gen.rfc_wire(259, 0, 0x40, u32(a)))
        elif k in ("vauth", "vacct"):
            # Vendor-Specific-Application-Id { Vendor-Id, Auth-/Acct-Application-Id }, one per id
            for a in v.split("+"):
                inner = gen.rfc_wire(266, 0, 0x40, u32(10415)) + gen.rfc_wire(258 if k == "vauth" else 259, 0, 0x40, u32(a))
                avps.append(gen.rfc_wire(260, 0, 0x40, inner))
        elif k == "ip":
            avps.append(gen.rfc_wire(257, 0, 0x40, b"\x00\x01" + bytes(int(x) for x in v.split("."))))
        elif k == "ipbad":
            # a Host-IP-Address whose payload is not an address: 1 = IPv4 family with 16 octets, 2 = IPv6 family with
            # 4 octets, 3 = a single octet, 4 = an unassigned family with 4 octets
            payload = {"1": b"\x00\x01" + bytes(range(16)), "2": b"\x00\x02" + bytes([10, 1, 1, 1]), "3": b"\x00",
                       "4": b"\x00\x63" + bytes([10, 1, 1, 1])}[v]
            avps.append(gen.rfc_wire(257, 0, 0x40, payload))
        elif k == "vid":
            avps.append(gen.rfc_wire(266, 0, 0x40, u32(v)))
        elif k == "pn":
            avps.append(gen.rfc_wire(269, 0, 0x00, v.encode()))
        elif k == "dc":
            avps.append(gen.rfc_wire(273, 0, 0x40, u32(v)))
        elif k == "sc":
            avps.append(gen.rfc_wire(461, 0, 0x40, v.encode()))
        elif k == "rt":
            avps.append(gen.rfc_wire(416, 0, 0x40, u32(v)))
        elif k == "rn":
            avps.append(gen.rfc_wire(415, 0, 0x40, u32(v)))
        elif k == "osi":
            avps.append(gen.rfc_wire(278, 0, 0x40, u32(v)))
        elif k == "ex":
            avps.append(gen.rfc_wire(int(v), 0, 0x00, b"xx"))
        elif k == "fav":
            # Failed-AVP with the given octets (hex) as its content
            avps.append(gen.rfc_wire(279, 0, 0x40, bytes.fromhex(v)))
        else:
            raise ValueError("unknown key " + k)
    body = b"".join(avps)
    return gen.rfc_header(1, 20 + len(body), flags, cmd, app, hbh, e2e) + body


def dwa_origin_state_id(wire: bytes):
    """(Result-Code, Origin-State-Id) of a transmitted Device-Watchdog-Answer, `None` for any other message."""
    h = gen.rfc_parse_header(wire)
    if h[3] != 280 or h[2] & 0x80:
        return None
    rc, osi = "-", "-"
    for c, v, f, data in gen.rfc_parse_avps(wire[20:h[1]]):
        if (c, v) == (268, 0):
            rc = int.from_bytes(data, "big")
        elif (c, v) == (278, 0):
            osi = int.from_bytes(data, "big")
    return rc, osi


def describe(wire: bytes) -> str:
    """Abstract of a message the node wrote: cmd R hbh e2e app rc oh fa flags."""
    h = gen.rfc_parse_header(wire)
    avps = gen.rfc_parse_avps(wire[20:h[1]])
    d = {}
    fa = []
    dc = "-"
    for c, v, f, data in avps:
        if (c, v) == (268, 0):
            d["rc"] = int.from_bytes(data, "big")
        elif (c, v) == (264, 0):
            d["oh"] = data.decode()
        elif (c, v) == (279, 0):
            try:
                fa = sorted(cc for cc, vv, ff, dd in gen.rfc_parse_avps(data))
            except gen.WireError:
                fa = ["?"]
        elif (c, v) == (273, 0):
            dc = str(int.from_bytes(data, "big"))
    out = (f"cmd={h[3]} R={1 if h[2] & 0x80 else 0} hbh={h[5]} e2e={h[6]} app={h[4]} rc={d.get('rc', '-')} "
           f"oh={d.get('oh', '-')} fa=[{'+'.join(map(str, fa))}] flags={h[2]} dc={dc}")
    if h[3] == 257 and not h[2] & 0x80 and avps:
        ips = sum(1 for c, v, f, x in avps if (c, v) == (257, 0))
        vid = next((int.from_bytes(x, "big") for c, v, f, x in avps if (c, v) == (266, 0)), "-")
        pn = next((x.decode() for c, v, f, x in avps if (c, v) == (269, 0)), "-")
        auth = sorted(int.from_bytes(x, "big") for c, v, f, x in avps if (c, v) == (258, 0))
        acct = sorted(int.from_bytes(x, "big") for c, v, f, x in avps if (c, v) == (259, 0))
        supp = sum(1 for c, v, f, x in avps if (c, v) == (265, 0))
        out += (f" cea=ip={ips};vid={vid};pn={pn};auth={'+'.join(map(str, auth))};acct={'+'.join(map(str, acct))};"
                f"supp={supp}")
    return out


def split_frames(data: bytes) -> list[bytes]:
    out = []
    while len(data) >= 20:
        n = int.from_bytes(data[1:4], "big")
        if n < 20 or n > len(data):
            break
        out.append(data[:n])
        data = data[n:]
    return out


# socket error kinds of the scenario language: "soft" / "hard" are EAGAIN / ECONNRESET (read) or EPIPE (write); a suffix
# picks another errno of the same class (the node's soft failures are EAGAIN, EWOULDBLOCK, ENOBUFS, ENOSR, EINTR;
# everything else ends the connection)
ERRNOS = {"softB": errno.ENOBUFS, "softS": errno.ENOSR, "softI": errno.EINTR, "softW": errno.EWOULDBLOCK,
          "hardT": errno.ETIMEDOUT, "hardU": errno.EHOSTUNREACH, "hardN": errno.ENETDOWN, "hardR": errno.ECONNRESET,
          "hardP": errno.EPIPE, "hardA": errno.ECONNABORTED, "hardF": errno.ECONNREFUSED, "hardO": errno.EIO}

class RecApp(app_mod.Application):
    def __init__(self, sim, idx, *a, **k):
        super().__init__(*a, **k)
        self.sim, self.idx = sim, idx
        self.raise_on_request = False

    def handle_request(self, message):
        self.sim.app_requests.append((self.idx, message))
        h = message.header
        self.sim.obs.append(f"APP a{self.idx} REQ cmd={h.command_code} hbh={h.hop_by_hop_identifier} e2e={h.end_to_end_identifier}")
        if self.sim.during:
            evs, self.sim.during = self.sim.during, []
            for e in evs:
                self.sim.event(e, nested=True)
        if self.raise_on_request == "raise0":
            raise KeyError            # an exception without arguments
        if self.raise_on_request == "raisenr":
            raise node_mod.NotRoutable("the handler could not forward the request")
        if self.raise_on_request:
            raise RuntimeError("handler failed")

    def handle_answer(self, message):
        h = message.header
        self.sim.obs.append(f"APP a{self.idx} ANS cmd={h.command_code} hbh={h.hop_by_hop_identifier} e2e={h.end_to_end_identifier}")

    def stop(self):
        self.sim.obs.append(f"APPSTOP a{self.idx}")
        super().stop()


class RecThreadApp(app_mod.ThreadingApplication):
    def __init__(self, sim, idx, *a, **k):
        super().__init__(*a, **k)
        self.sim, self.idx = sim, idx
        self.outcome = "answer"

    def handle_request(self, message):
        self.sim.app_requests.append((self.idx, message))
        h = message.header
        self.sim.obs.append(f"APP a{self.idx} REQ cmd={h.command_code} hbh={h.hop_by_hop_identifier} e2e={h.end_to_end_identifier}")
        if self.outcome == "raise":
            raise RuntimeError("handler failed")
        if self.outcome == "raise0":
            raise KeyError            # an exception without arguments
        if self.outcome == "raisenr":
            raise node_mod.NotRoutable("the handler could not forward the request")
        if self.outcome == "none":
            return None
        return self.generate_answer(message, result_code=2001)

    def handle_answer(self, message):
        h = message.header
        self.sim.obs.append(f"APP a{self.idx} ANS cmd={h.command_code} hbh={h.hop_by_hop_identifier} e2e={h.end_to_end_identifier}")

    def stop(self):
        self.sim.obs.append(f"APPSTOP a{self.idx}")
        super().stop()


class Sim:
    def __init__(self, cfg: str):
        self.env = Env()
        self.env.deferred_handlers = []
        self.env.install()
        self.obs: list[str] = []
        self.eager = "eager=1" in cfg.split(";")
        self._flushing = False
        self._in_io = False
        self.app_requests: list = []
        self.conns: list = []          # PeerConnection in creation order
        self.conn_sock: dict = {}
        self.flushed: dict = {}        # per socket: bytes already reported
        kv = {}
        self.peer_cfg, self.app_cfg = [], []
        for item in cfg.split(";"):
            if not item:
                continue
            if item.startswith("peer:"):
                self.peer_cfg.append(item[5:].split(","))
            elif item.startswith("app:"):
                self.app_cfg.append(item[4:].split(","))
            else:
                k, v = item.split("=")
                kv[k] = v
        self.kv = kv
        self._readers_running: list = []
        # events that happen while a basic application's request handler is running (the reader thread is inside it):
        # `during=ev+ev` in the configuration, e.g. `during=eof_0`; consumed by the first handler call
        self.during = [x.replace("_", " ") for x in kv["during"].split("+")] if kv.get("during") else []
        listen = kv.get("listen", "1") == "1"
        self.node = node_mod.Node(kv.get("host", "node.local"), kv.get("realm", "realm.local"),
                                  ip_addresses=[f"10.0.0.{i + 1}" for i in range(int(kv.get("addrs", "1")))] if listen else None,
                                  tcp_port=3868 if listen else None, vendor_ids=[10415])
        n = self.node
        for k in ("cea", "cer", "dwa", "idle"):
            if k in kv:
                setattr(n, f"{k}_timeout", int(kv[k]))
        if "wake" in kv:
            n.wakeup_interval = int(kv["wake"])
        if "rq" in kv:
            n.retransmit_queue_size = int(kv["rq"])
        if kv.get("noval") == "1":
            n.validate_received_request_avps = False
        # events that happen while an application thread is inside `route_answer`, between finding the pending request and
        # removing its entry (the I/O thread acting in between): `midroute=ev+ev`, consumed by the first answer that gets
        # that far.  The current source of the method is stepped line by line; the removal line is located structurally.
        self.midroute = [x.replace("_", " ") for x in kv["midroute"].split("+")] if kv.get("midroute") else []
        if self.midroute:
            import linesched
            import extract_threads
            shape = extract_threads.route_answer_shape(type(n).route_answer)
            step_fn = linesched.stepper(type(n).route_answer)
            sim = self

            def route_answer(message, _step=step_fn, _shape=shape):
                g = _step(n, message)
                try:
                    while True:
                        y = next(g)
                        if sim.midroute and y[0] == "line" and _shape["removal"] is not None and y[1] == _shape["removal"]:
                            evs, sim.midroute = sim.midroute, []
                            for e in evs:
                                sim.event(e, nested=True)
                except StopIteration as done:
                    return done.value
            n.route_answer = route_answer
        # another thread enters stop() -- and gets as far as raising the stopping flag -- while the I/O thread is inside its
        # reconnect pass, between the pass's own look at the flag and the dial: `midconnect=1`; the later `stop` event is
        # that thread continuing
        self.stop_flag_early = False
        if kv.get("midconnect") == "1":
            orig_ctp = n._connect_to_peer
            sim_ = self

            def _connect_to_peer(peer, _orig=orig_ctp):
                if n._started and not n._stopping and getattr(sim_, "midconnect_armed", False):
                    n._stopping = True
                    sim_.stop_flag_early = True
                    sim_.obs.append("EVN stopflag")
                return _orig(peer)
            n._connect_to_peer = _connect_to_peer
        self.peers = []
        for pc in self.peer_cfg:
            name, realm, persistent, always, wait, hasaddr, default = pc[:7]
            # (realm "-": added without a realm name -- the documented default is the node's realm)
            p = n.add_peer(f"aaa://{name}", None if realm == "-" else realm, ["192.0.2.1"] if hasaddr == "1" else None,
                           is_persistent=persistent == "1", is_default=default == "1")
            p.always_reconnect = always == "1"
            p.reconnect_wait = int(wait)
            for key, val in zip(("cea_timeout", "cer_timeout", "dwa_timeout", "idle_timeout"), pc[7:11]):
                if val != "-":
                    setattr(p, key, int(val))
            self.peers.append(p)
        self.apps = []
        for i, ac in enumerate(self.app_cfg):
            appid, auth, acct, kind, maxthr, pidx, realms = ac[:7]
            cls = RecApp if kind == "b" else RecThreadApp
            kw = dict(application_id=int(appid), is_auth_application=auth == "1", is_acct_application=acct == "1")
            if kind != "b":
                kw["max_threads"] = int(maxthr)
            a = cls(self, i, **kw)
            peers = [self.peers[int(x)] for x in pidx.split("+")] if pidx not in ("", "-") else []
            n.add_application(a, peers, realms.split("+") if realms not in ("", "-") else None)
            self.apps.append(a)
        self.env.on_sleep = self._on_sleep
        self.env.on_wait = self._on_wait
        self.wait_events: list = []
        self.stopping_result = None

    # ------------------------------------------------------------------ engine
    def _track_new_conns(self):
        # every PeerConnection creates its two worker stubs in __init__, so the
        # stub list gives all connections (also rejected ones) in creation order
        for th in InertThread.instances:
            tgt = getattr(th, "target", None)
            c = getattr(tgt, "__self__", None)
            if isinstance(c, peer_mod.PeerConnection) and c not in self.conns:
                self.conns.append(c)
                if self.eager:
                    self._make_eager(c)

    def _make_eager(self, c):
        """Alternative schedule: whenever a message is queued for a connection, its
        writer thread and the I/O loop run at once (they win every race against the
        thread that queued the message), instead of after that thread has finished."""
        orig = c.add_out_msg

        def add_out_msg(msg, _orig=orig, _c=c):
            _orig(msg)
            if self._flushing:
                return
            self._flushing = True
            try:
                self.pump_writer(_c)
                if not self._in_io:       # (the I/O thread cannot overtake itself)
                    self.io_iteration()
                    self.io_iteration()   # (the first pass may only see the interrupt)
                    self.report_writes()
            finally:
                self._flushing = False
        c.add_out_msg = add_out_msg

    def pump_writer(self, c):
        wq = c._write_msg_queue
        if not isinstance(wq, OneShotQueue):
            q = OneShotQueue(c._write_thread)
            while True:
                try:
                    q.put(wq.get_nowait())
                except Exception:
                    break
            c._write_msg_queue = wq = q
        if wq.items and not c._write_thread.stop_requested and not c._write_thread.crashed:
            try:
                c.work_write_queue(c._write_thread)
            except (Exception, DeadlockError) as e:  # noqa
                self.obs.append(f"CRASH writer {self.cname(c)} {type(e).__name__}")
                self.env.crashes.append(("writer", e))
                c._write_thread.crashed = True
            c._write_thread.pause = False

    def cname(self, c):
        return f"c{self.conns.index(c)}" if c in self.conns else "c?"

    def io_iteration(self):
        if getattr(self, "_io_dead", False):
            return                      # the connection thread died of an exception: nothing runs any more
        self.env.select_budget = 1
        th = self.node._connection_thread
        self._in_io = True
        try:
            self.node._handle_connections(th)
        except StopLoop:
            pass
        except (Exception, DeadlockError) as e:  # noqa
            self.obs.append(f"CRASH io {type(e).__name__}")
            self.env.crashes.append(("io", e))
            self._io_dead = True
        finally:
            self._in_io = False
        self._track_new_conns()

    def pump(self):
        """Run every connection's reader and writer once (synchronously)."""
        progressed = False
        for c in list(self.conns):
            rq = c._read_buffer_queue
            if not isinstance(rq, OneShotQueue):
                q = OneShotQueue(c._read_thread)
                while True:
                    try:
                        q.put(rq.get_nowait())
                    except Exception:
                        break
                c._read_buffer_queue = rq = q
            if self.eager and rq.items and c._read_thread.stop_requested and not c._read_thread.crashed \
                    and c not in self._readers_running:
                # alternative schedule: the reader was already waiting in get() when its connection was closed -- it still
                # handles what had been handed over before (the stop flag is only looked at before the next get())
                th = c._read_thread
                th.stop_requested = False
                self._readers_running.append(c)
                try:
                    c.work_read_queue(th)
                except (Exception, DeadlockError) as e:  # noqa
                    self.obs.append(f"CRASH reader {self.cname(c)} {type(e).__name__}")
                    self.env.crashes.append(("reader", e))
                    th.crashed = True
                finally:
                    self._readers_running.remove(c)
                    th.stop_requested = True
                    rq.items.clear()
                progressed = True
            if rq.items and not c._read_thread.stop_requested and not c._read_thread.crashed \
                    and c not in self._readers_running:
                progressed = True
                self._readers_running.append(c)     # (a reader that is inside a handler is not entered again: it is one thread)
                try:
                    c.work_read_queue(c._read_thread)
                except (Exception, DeadlockError) as e:  # noqa
                    self.obs.append(f"CRASH reader {self.cname(c)} {type(e).__name__}")
                    self.env.crashes.append(("reader", e))
                    c._read_thread.crashed = True
                finally:
                    self._readers_running.remove(c)
                c._read_thread.pause = False
            wq = c._write_msg_queue
            if not isinstance(wq, OneShotQueue):
                q = OneShotQueue(c._write_thread)
                while True:
                    try:
                        q.put(wq.get_nowait())
                    except Exception:
                        break
                c._write_msg_queue = wq = q
            if wq.items and not c._write_thread.stop_requested and not c._write_thread.crashed:
                progressed = True
                try:
                    c.work_write_queue(c._write_thread)
                except (Exception, DeadlockError) as e:  # noqa
                    self.obs.append(f"CRASH writer {self.cname(c)} {type(e).__name__}")
                    self.env.crashes.append(("writer", e))
                    c._write_thread.crashed = True
                c._write_thread.pause = False
        # threading applications: queue consumers
        for a in self.apps:
            if isinstance(a, app_mod.ThreadingApplication):
                progressed |= self.pump_app(a)
        return progressed

    def pump_app(self, a):
        progressed = False
        for qname, fn, thname in (("_recv_msg_queue", a._wait_for_recv_msg, "_recv_queue_consumer"),
                                  ("_resp_msg_queue", a._wait_for_resp_msg, "_resp_queue_consumer")):
            th = getattr(a, thname)
            q = getattr(a, qname)
            if not isinstance(q, OneShotQueue):
                nq = OneShotQueue(th)
                while True:
                    try:
                        nq.put(q.get_nowait())
                    except Exception:
                        break
                setattr(a, qname, nq)
                q = nq
            if q.items and th.started and not th.stop_requested and not th.crashed and not getattr(a, "held", False):
                progressed = True
                try:
                    fn(th)
                except (Exception, DeadlockError) as e:  # noqa
                    self.obs.append(f"CRASH app a{a.idx} {thname} {type(e).__name__}")
                    self.env.crashes.append((thname, e))
                    th.crashed = True
                th.pause = False
        return progressed

    def report_writes(self):
        for c in self.conns:
            s = self.conn_sock.get(c)
            if s is None:
                s = self.node.peer_sockets.get(c.ident)
                if s is not None:
                    self.conn_sock[c] = s
            if s is None:
                continue
            done = self.flushed.get(s, 0)
            frames = split_frames(s.sent[done:])
            for f in frames:
                self.obs.append(f"OUT {self.cname(c)} {describe(f)}")
                osi = dwa_origin_state_id(f)
                if osi is not None:
                    # (oracle only: the Origin-State-Id the watchdog answer carries, next to the node's own)
                    self.obs.append(f"DWAOSI {self.cname(c)} rc={osi[0]} osi={osi[1]} node={getattr(self.node, 'state_id', '-')}")
                done += len(f)
            self.flushed[s] = done

    def settle(self, max_rounds=40):
        """I/O iterations and pumps until nothing moves any more."""
        for _ in range(max_rounds):
            self.io_iteration()
            moved = self.pump()
            busy = bool(self.env.pipe_buf) or moved
            for c in self.conns:
                s = self.node.peer_sockets.get(c.ident)
                if s is not None and s.writable and c.state != peer_mod.PEER_CLOSED and (
                        len(c.write_buffer) > 0 or c.state == peer_mod.PEER_CONNECTING):
                    busy = True
                if s is not None and s.inbox and s in self.env.want_read:
                    busy = True
            if not busy:
                break
        self.report_writes()

    def _on_sleep(self, dt):
        # Node.stop() polls with time.sleep(1): one virtual second, one settle
        self.settle()                 # writer and I/O threads flush what stop() queued
        self.env.now += int(dt)
        self.run_wait_events()
        self.settle()

    def _on_wait(self, ev, timeout):
        # Application.send_request blocked in Event.wait(): play the scripted events
        self.settle()
        self.run_wait_events()
        if not ev.is_set() and timeout:
            self.env.now += int(timeout)

    def run_wait_events(self):
        evs, self.wait_events = self.wait_events, []
        for e in evs:
            self.event(e, nested=True)

    # ------------------------------------------------------------------ events
    def sock(self, k):
        if k >= len(self.conns):
            return None
        c = self.conns[k]
        return self.conn_sock.get(c) or self.node.peer_sockets.get(c.ident)

    def event(self, ev: str, nested: bool = False):
        self.obs.append(f"{'EVN' if nested else 'EV'} {ev}")
        t = ev.split(" ")
        op = t[0]
        n = self.node
        if op == "start":
            self.env.listen_pending = len(n.ip_addresses) if n.ip_addresses and n.tcp_port else 0
            if len(t) > 1:
                self.env.dial_plan = t[1].split(",")
            try:
                n.start()
            except Exception as e:  # noqa
                self.obs.append(f"RAISE start {type(e).__name__}")
            self._track_new_conns()
            for c in self.conns:
                self.conn_sock.setdefault(c, n.peer_sockets.get(c.ident))
            self.settle()
        elif op == "acc":
            self._acc_n = getattr(self, "_acc_n", -1) + 1
            ls = n.tcp_sockets[self._acc_n % len(n.tcp_sockets)]        # the listening addresses take turns
            s = VSocket(self.env, "peer")
            ls.accept_queue.append(s)
            before = len(self.conns)
            self.io_iteration()
            for c in self.conns[before:]:
                self.conn_sock[c] = s
            self.settle()
        elif op == "rx":
            s = self.sock(int(t[1]))
            data = b"".join(build_msg(m) for m in t[2:])
            if s is not None and not s.closed:
                s.inbox.append(data)
                self.env.want_read.add(s)
            self.settle()
        elif op == "anon":
            # a connection whose peer the node cannot resolve (state outside what the node itself produces)
            c = self.conns[int(t[1])]
            c.node_name = ""
            c.host_identity = "ghost.x"
        elif op == "rxm":
            # several sockets become readable in the same pass of the I/O loop: rxm k1:msg k2:msg …
            for part in t[1:]:
                k, m = part.split(":", 1)
                s = self.sock(int(k))
                if s is not None and not s.closed:
                    s.inbox.append(build_msg(m))
                    self.env.want_read.add(s)
            self.settle()
        elif op == "rxcut":
            s = self.sock(int(t[1]))
            b1, b2 = build_msg(t[3]), build_msg(t[4])
            cut = len(b1) + max(1, min(int(t[2]), len(b2) - 1))
            data = b1 + b2
            for part in (data[:cut], data[cut:]):
                if s is not None and not s.closed:
                    s.inbox.append(part)
                    self.env.want_read.add(s)
                self.settle()
        elif op == "rxraw":
            s = self.sock(int(t[1]))
            if s is not None and not s.closed:
                s.inbox.append(bytes.fromhex(t[2]))
                self.env.want_read.add(s)
            self.settle()
        elif op == "eof":
            s = self.sock(int(t[1]))
            if s is not None and not s.closed:
                s.inbox.append(b"")
                self.env.want_read.add(s)
            self.settle()
        elif op == "rerr":
            s = self.sock(int(t[1]))
            if s is not None and not s.closed:
                s.inbox.append(OSError(ERRNOS.get(t[2], errno.EAGAIN if t[2].startswith("soft") else errno.ECONNRESET), "x"))
                self.env.want_read.add(s)
            self.settle()
        elif op == "wr":
            s = self.sock(int(t[1]))
            if s is not None:
                for x in t[2].split(","):
                    if x.startswith("soft"):
                        s.send_script.append(OSError(ERRNOS.get(x, errno.EAGAIN), "again"))
                    elif x.startswith("hard"):
                        s.send_script.append(OSError(ERRNOS.get(x, errno.EPIPE), "pipe"))
                    else:
                        s.send_script.append(int(x))
        elif op == "block":
            s = self.sock(int(t[1]))
            if s is not None:
                s.writable = t[2] == "0"
            self.settle()
        elif op == "sethbh":
            k = int(t[1])
            if k < len(self.conns):
                self.conns[k].hop_by_hop_seq._sequence = int(t[2])
        elif op == "dial":
            self.env.dial_plan += t[1].split(",")
        elif op == "conn":
            s = self.sock(int(t[1]))
            if s is not None:
                s.so_error = 0 if t[2] == "ok" else errno.ECONNREFUSED
                s.writable = True
            self.settle()
        elif op == "adv":
            self.env.now += int(t[1])
            self.settle()
        elif op == "advrx":
            # the clock has advanced when the next read arrives: no pass of the I/O loop without a ready socket in between
            self.env.now += int(t[1])
            s = self.sock(int(t[2]))
            if s is not None and not s.closed:
                s.inbox.append(b"".join(build_msg(m) for m in t[3:]))
                self.env.want_read.add(s)
            self.settle()
        elif op == "tick":
            self.settle()
        elif op == "mark":
            pass
        elif op == "hold":
            # the application's queue consumers are not scheduled while held
            self.apps[int(t[1])].held = t[2] == "1"
            self.settle()
        elif op == "ans":
            a = self.apps[int(t[1])]
            idx = int(t[2])
            reqs = [m for i, m in self.app_requests if i == int(t[1])]
            try:
                req = reqs[idx]
                ans = a.generate_answer(req, result_code=None if t[3] == "-" else int(t[3]))
                a.send_answer(ans)
                self.obs.append(f"APP a{t[1]} SENT")
            except Exception as e:  # noqa
                self.obs.append(f"APP a{t[1]} RAISE {type(e).__name__}")
            self.settle()
        elif op == "req":
            a = self.apps[int(t[1])]
            msg = Message.from_bytes(build_msg(t[2]))
            msg.header.hop_by_hop_identifier = 0
            timeout = int(t[3]) if len(t) > 3 else 30
            # events marked "!" are played while the request is being handed to the connection (inside send_message: an answer
            # that comes back before the sender has got any further), the others when the sender blocks
            fast = [x[1:] for x in t[4:] if x.startswith("!")]
            self.wait_events = [x.replace("_", " ") if "_" in x else x.replace("~", " ") for x in t[4:] if not x.startswith("!")]
            orig_send = n.send_message
            if fast:
                def send_message(conn, message, _orig=orig_send):
                    _orig(conn, message)
                    n.send_message = _orig
                    self.settle()
                    for e in fast:
                        self.event(e.replace("_", " ") if "_" in e else e.replace("~", " "), nested=True)
                n.send_message = send_message
            try:
                r = a.send_request(msg, timeout)
                h = r.header
                self.obs.append(f"APP a{t[1]} GOT cmd={h.command_code} hbh={h.hop_by_hop_identifier} e2e={h.end_to_end_identifier}")
            except Exception as e:  # noqa
                self.obs.append(f"APP a{t[1]} RAISE {type(e).__name__}")
            n.send_message = orig_send
            self.settle()
        elif op == "handler":
            # run the k-th deferred ThreadingApplication handler now
            hs = self.env.deferred_handlers
            k = int(t[1]) if len(t) > 1 else 0
            if k < len(hs):
                h = hs.pop(k)
                try:
                    h.run_now()
                except (Exception, DeadlockError) as e:  # noqa
                    self.obs.append(f"CRASH handler {type(e).__name__}")
                    self.env.crashes.append(("handler", e))
            self.settle()
        elif op == "outcome":
            a = self.apps[int(t[1])]
            if isinstance(a, RecThreadApp):
                a.outcome = t[2]
            else:
                a.raise_on_request = t[2] if t[2] in ("raise", "raise0", "raisenr") else False
        elif op == "stop":
            force = t[1] == "1"
            self.wait_events = [x.replace("_", " ") for x in t[3:]]
            th = n._connection_thread
            orig_join = th.join

            def join(timeout=None):
                # the I/O thread notices the stop flag when its select() returns: at worst a whole wake-up interval from
                # now (the schedule in which it had just gone to sleep); a join that gives up earlier returns without it
                if timeout is not None and timeout < n.wakeup_interval:
                    self.obs.append(f"JOINGAVEUP timeout={timeout} wakeup={n.wakeup_interval}")
                    return
                self.io_iteration()
            th.join = join
            # the moment stop() has finished waiting for the connections and turns to the I/O thread: how long it waited (virtual
            # seconds) and how many connections were still registered
            t_stop0, orig_stop = self.env.now, th.stop

            def stop_io(*a, **k):
                self.obs.append(f"STOPWAIT dt={int(self.env.now - t_stop0)} registered={len(n.connections)}")
                th.stop = orig_stop
                return orig_stop(*a, **k)
            th.stop = stop_io
            if self.stop_flag_early:
                n._stopping = False          # (the thread that raised the flag earlier is the one calling stop(): it goes on from there)
                self.stop_flag_early = False
            try:
                n.stop(wait_timeout=int(t[2]), force=force)
                self.obs.append("STOPPED")
            except Exception as e:  # noqa
                self.obs.append(f"RAISE stop {type(e).__name__}")
            self.report_writes()
        elif op == "rxn":
            # rxn k m1 m2 …: each message arrives in a read of its own, the I/O loop makes one pass per read back to back, and
            # the connection's reader thread only runs afterwards (it was busy / not scheduled): the reads pile up in its queue
            sk = self.sock(int(t[1]))
            if sk is not None and not sk.closed:
                for d in t[2:]:
                    sk.inbox.append(build_msg(d))
                    self.env.want_read.add(sk)
                    self.io_iteration()
            self.settle()
        elif op == "busy":
            # busy k ms: ONE call of the I/O loop making k passes, its select() returning every `ms` milliseconds (k*ms a whole
            # number of seconds) -- a loop that is woken more often than once a second for a while; state the loop carries
            # from pass to pass is carried here too (every other event starts the loop function afresh)
            k, ms = int(t[1]), int(t[2])
            t0 = self.env.now
            self.env.select_step = ms / 1000.0
            self.env.select_budget = k
            th = n._connection_thread
            self._in_io = True
            try:
                n._handle_connections(th)
            except StopLoop:
                pass
            except (Exception, DeadlockError) as e:  # noqa
                self.obs.append(f"CRASH io {type(e).__name__}")
                self.env.crashes.append(("io", e))
                self._io_dead = True
            finally:
                self._in_io = False
                self.env.select_step = 0
                self.env.now = t0 + (k * ms) // 1000
            self._track_new_conns()
            self.report_writes()        # (no further pass here: the observation is the state that one call left behind)
        elif op == "armstop":
            # from here on the next dial of the reconnect pass coincides with another thread's stop() (config `midconnect=1`)
            self.midconnect_armed = True
        elif op == "stopin":
            # stopin <timeout> <dt>: a forced stop() called by another thread while the I/O loop sleeps in select(); the
            # select timeout (dt seconds) has passed when it returns, and the loop finishes the pass it is in
            th = n._connection_thread
            dt = int(t[2])

            def hook():
                self.env.now += dt
                th.join = lambda timeout=None: None
                try:
                    n.stop(wait_timeout=int(t[1]), force=True)
                    self.obs.append("STOPPED")
                except Exception as e:  # noqa
                    self.obs.append(f"RAISE stop {type(e).__name__}")
            self.env.during_select = hook
            self.io_iteration()
            self.io_iteration()
            self.settle()
            self.report_writes()
        else:
            raise ValueError("unknown event " + ev)
        self.observe()

    # ------------------------------------------------------------- observation
    def observe(self):
        n = self.node
        for c in self.conns:
            live = c.ident in n.connections and n.connections[c.ident] is c
            self.obs.append(f"CONN {self.cname(c)} state={STATE.get(c.state, '?')} dir={'R' if c.is_receiver else 'S'} "
                            f"name={c.node_name or '-'} ident={c.host_identity or '-'} live={1 if live else 0} "
                            f"dwr={1 if c._last_dwr else 0}")
        for c in self.conns:
            # a connection whose connect() failed at once and that is still registered, or whose socket is still open
            sk = self.conn_sock.get(c) or n.peer_sockets.get(c.ident)
            if sk is not None and isinstance(getattr(sk, "connect_outcome", None), OSError):
                live = c.ident in n.connections and n.connections[c.ident] is c
                if live or not sk.closed:
                    self.obs.append(f"ZOMBIE {self.cname(c)} registered={1 if live else 0} socketClosed={1 if sk.closed else 0}")
        for p in self.peers:
            cc = self.cname(p.connection) if p.connection is not None else "-"
            self.obs.append(f"PEER {p.node_name} conn={cc} reason={REASON.get(p.disconnect_reason, '?')} "
                            f"disc={1 if p.last_disconnect else 0}")
        for i, a in enumerate(self.apps):
            self.obs.append(f"APPS a{i} ready={1 if a.is_ready.is_set() else 0}")
        sent = sum(len(d) for d in n._sent_answers.values())
        peerw = sum(len(d) for d in n._peer_waiting_answer.values())
        ansW = sum(len(a._answer_waiting) for a in self.apps)
        self.obs.append(f"SIZE conns={len(n.connections)} socks={len(n.peer_sockets)} sockPeers={len(n.socket_peers)} "
                        f"half={len(n._half_ready_connections)} appW={len(n._app_waiting_answer)} peerW={peerw} "
                        f"origW={len(n._origin_waiting_answer)} sent={sent} ansW={ansW} peerWc={len(n._peer_waiting_answer)}")
        open_socks = sum(1 for s in self.env.sockets if not s.closed and s.kind == "peer")
        live_workers = 0
        for c in self.conns:
            for th in (c._read_thread, c._write_thread):
                if th.is_alive():
                    live_workers += 1
        self.obs.append(f"RES socketsOpen={open_socks} workersLive={live_workers} crashed={len(self.env.crashes)}")
        # every container the node, its connections' owner objects and the applications hold (whatever its name): total sizes
        self.obs.append("ALL " + " ".join(f"{k}={v}" for k, v in sorted(self._container_sizes().items())))
        self.obs.append(f"LSN open={sum(1 for s in self.env.sockets if not s.closed and s.kind == 'listen')}")
        # the statistics windows of the peers: bounded deques within their bound, time-slotted counters holding nothing older
        # than their maximum age (relative to the newest slot: the counter forgets when it is incremented)
        import collections
        over, span, slots = 0, 0, 0
        for p in self.peers:
            st = getattr(p, "statistics", None)
            if st is None:
                continue
            counters = []
            for v in vars(st).values():
                if isinstance(v, collections.deque) and (v.maxlen is None or len(v) > v.maxlen):
                    over += 1
                vs = list(v.values()) if isinstance(v, dict) else [v]
                for x in vs:
                    if isinstance(x, collections.deque) and x.maxlen is None:
                        over += 1
                    if hasattr(x, "_slots") and hasattr(x, "_maxage"):
                        counters.append(x)
            for c in counters:
                slots += len(c._slots)
                if c._slots:
                    span = max(span, max(c._slots) - min(c._slots) - c._maxage)
        self.obs.append(f"STAT unbounded={over} beyondAge={max(span, 0)} slots={slots}")

    def _container_sizes(self) -> dict:
        import collections
        out = {}

        def size(x, depth=0):
            if isinstance(x, (dict, list, set, tuple, collections.deque)):
                n = len(x)
                if depth < 2:
                    vals = x.values() if isinstance(x, dict) else x
                    n += sum(size(v, depth + 1) for v in vals if isinstance(v, (dict, list, set, collections.deque)))
                return n
            return 0
        for owner, obj in [("node", self.node)] + [(f"app{i}", a) for i, a in enumerate(self.apps)]:
            for k, v in vars(obj).items():
                if isinstance(v, (dict, list, set, collections.deque)) and k not in ("peers", "applications", "statistics_history"):
                    out[f"{owner}.{k}"] = size(v)
                elif hasattr(v, "qsize") and callable(v.qsize):
                    out[f"{owner}.{k}"] = v.qsize()           # queues (thread slots, message queues)
        return out

    def close(self):
        self.env.uninstall()


def run_scenario(line: str) -> list[str]:
    """NODE <cfg> | ev | ev …  →  observation lines"""
    parts = [p.strip() for p in line.split("|")]
    assert parts[0].startswith("NODE ")
    sim = Sim(parts[0][5:].strip())
    try:
        for ev in parts[1:]:
            if not ev:
                continue
            sim.event(ev)
        return sim.obs
    finally:
        sim.close()
