"""C13 — peer/connection tables and application readiness stay consistent."""
from __future__ import annotations

import random

from common import Result
import nodegen
import nodecheck
from nodecheck import Obs, kv, parse_msg, parse_cfg

PROP = "C13"
MODULES = ["DV.Properties.C13", "DV.Properties.C13Hist", "DV.Properties.C13Sock", "DV.Properties.ConfigTie", "DV.Properties.C13Ready", "DV.Properties.C13Remove"]
KEEP = {"CONN": ["state", "dir", "name", "ident", "live"], "PEER": ["conn", "reason", "disc"], "APPS": ["ready"],
        "SIZE": ["conns", "socks", "sockPeers", "half"], "RES": ["socketsOpen"]}


def oracle(line: str, obs: Obs):
    cfg = parse_cfg(line)
    fails = []
    ever_connected = set()
    orphan_by_cer, orphaned_seen = set(), set()
    had_two = set()          # peers that have had two live connections at once (a dialled one and one they opened themselves)
    # what the recorded defect (K6) predicts for Peer.connection: a connection of the peer becomes its current one only when it
    # appears while the peer has none; when the current one ends the record is emptied, whatever else lives on
    k6_current, k6_prev_mine = {}, {}
    ce_count = {}
    dialled_name = {}
    for ev, lines in obs.blocks:
        t = ev.split(" ")
        if t[0] == "rx":
            # each connection carries at most one CER (RFC 6733 5.3): beyond that the history is outside the quantifier
            for d in t[2:]:
                m = parse_msg(d)
                if m["cmd"] == 257:
                    # a second CER or CEA on one connection is outside the quantifier
                    ce_count[t[1]] = ce_count.get(t[1], 0) + 1
                    # so is a CEA claiming another identity than the peer that was dialled
                    dn = dialled_name.get(f"c{t[1]}")
                    oh = m["keys"].get("oh")
                    if not m["R"] and dn and oh is not None and oh.lower() != dn.lower():
                        return fails
            if any(v > 1 for v in ce_count.values()):
                return fails
        conns = {l.split(" ")[1]: kv(l) for l in lines if l.startswith("CONN ")}
        for k, c in conns.items():
            if c["dir"] == "S" and c["name"] != "-":
                dialled_name[k] = c["name"]
        peers = {l.split(" ")[1]: kv(l) for l in lines if l.startswith("PEER ")}
        apps = {l.split(" ")[1]: kv(l) for l in lines if l.startswith("APPS ")}
        size = next((kv(l) for l in lines if l.startswith("SIZE ")), None)
        resl = next((kv(l) for l in lines if l.startswith("RES ")), None)
        if size is None:
            continue

        def of_peer(c, p):
            # a connection of peer p: dialled to p, or identified as p by a successful exchange
            # (host identities are case-insensitive names)
            return (c["dir"] == "S" and c["name"].lower() == p.lower()) or (c["dir"] == "R" and c["ident"].lower() == p.lower())
        live = {k: c for k, c in conns.items() if c["live"] == "1" and c["state"] != "CLOSED"}
        for p, pd in peers.items():
            mine = [k for k, c in live.items() if of_peer(c, p)]
            if len(mine) >= 2:
                had_two.add(p)
            if k6_current.get(p) is not None and k6_current[p] not in mine:
                k6_current[p] = None
            if k6_current.get(p) is None:
                fresh = [k for k in mine if k not in k6_prev_mine.get(p, ())]
                if fresh:
                    k6_current[p] = fresh[0]
            k6_prev_mine[p] = list(mine)
            if pd["conn"] == "-" and mine and t[0] == "rx" and len(t) == 3 and ":".join(t[2].split(":")[:2]) in ("CE:128", "257:128") \
                    and p not in orphaned_seen:
                orphan_by_cer.add(p)
            if pd["conn"] == "-" and mine:
                orphaned_seen.add(p)
            elif pd["conn"] != "-":
                orphaned_seen.discard(p)
                orphan_by_cer.discard(p)
            if pd["conn"] != "-":
                ever_connected.add(p)
                c = conns.get(pd["conn"])
                if c is None or c["live"] != "1" or not of_peer(c, p):
                    fails.append({"what": "peer.connection references a connection that is not a live connection of that peer",
                                  "event": ev[:200], "real": f"PEER {p} {pd} / CONN {pd['conn']} {c}"})
            elif mine:
                fails.append({"what": "a live connection of the peer exists but peer.connection is unset",
                              "event": ev[:200], "real": f"PEER {p} {pd} / live {mine}",
                              # the recorded finding: the peer's *current* connection ended (loss, timeout, DPR/DPA) while its
                              # second one lives on -- not: the node itself gave the first one up when the second one's CER came
                              "sig": "second_connection_orphaned" if (p in had_two and p not in orphan_by_cer and
                                                                      k6_current.get(p) is None) else None})
            if pd["conn"] == "-" and p in ever_connected and (pd["reason"] == "-" or pd["disc"] != "1"):
                fails.append({"what": "peer connection removed but disconnect reason / time not set", "event": ev[:200],
                              "real": f"PEER {p} {pd}"})
        nlive = sum(1 for c in conns.values() if c["live"] == "1")
        if int(size["conns"]) != nlive or int(size["socks"]) != nlive:
            fails.append({"what": "connection / socket tables do not hold exactly the live connections", "event": ev[:200],
                          "real": f"{size} live={nlive}"})
        if int(size["sockPeers"]) > nlive or int(size["half"]) > nlive:
            fails.append({"what": "a closed connection is still held in the node's socket / pending-connection tables",
                          "event": ev[:200], "real": f"{size} live={nlive}"})
        zombies = [l for l in lines if l.startswith("ZOMBIE ")]
        if zombies and t[0] not in ("wr", "dial", "sethbh", "outcome", "mark"):
            fails.append({"what": "a connection whose connect() failed at once is still registered / its socket is still open",
                          "event": ev[:200], "real": "; ".join(zombies)})
        closed_in_tables = [k for k, c in conns.items() if c["state"] == "CLOSED" and c["live"] == "1" and
                            t[0] not in ("wr", "dial", "sethbh", "outcome", "mark")]      # (events that do not run the node)
        if closed_in_tables:
            fails.append({"what": "a closed connection is still in the node's connection table at a quiescent point",
                          "event": ev[:200], "real": f"closed and registered: {closed_in_tables}"})
        # application readiness
        for ai, a in enumerate(cfg["apps"]):
            ad = apps.get(f"a{ai}")
            if ad is None:
                continue
            names = [cfg["peers"][pi]["name"] for pi in a["peers"]]
            has_ready = any(peers.get(n, {}).get("conn", "-") != "-" and conns[peers[n]["conn"]]["state"] in ("READY", "WAITDWA")
                            for n in names if peers.get(n, {}).get("conn", "-") in conns)
            has_any = any(any(of_peer(c, n) for c in live.values()) for n in names)
            if has_ready and ad["ready"] != "1":
                fails.append({"what": "application not ready although a configured peer has a ready connection",
                              "event": ev[:200], "real": f"a{ai} {ad}"})
            if not has_any and ad["ready"] != "0":
                fails.append({"what": "application still ready although none of its configured peers has a connection",
                              "event": ev[:200], "real": f"a{ai} {ad}"})
        if resl is not None and int(resl["socketsOpen"]) > nlive:
            fails.append({"what": "socket of a closed / refused connection left open", "event": ev[:200],
                          "real": f"{resl} live={nlive}"})
    return fails


def scenarios(rng: random.Random, tier: str):
    out = []
    h = [300]

    def n():
        h[0] += 1
        return h[0]
    two = nodegen.CONFIGS["two"]
    # corpus: second inbound connection from a connected peer, then it goes away
    out.append(two + " | start | acc | rx 0 " + nodegen.cer("peer1.x", "4", n(), n()) + " | acc | rx 1 " +
               nodegen.cer("peer1.x", "4", n(), n()) + " | eof 1 | tick")
    out.append(nodegen.CONFIGS["basic"] + " | start | " + " | ".join(
        f"acc | rx {i} " + nodegen.cer("stranger.x", "4", n(), n()) for i in range(4)) + " | tick")
    out.append(nodegen.CONFIGS["out"] + " | start fail,fail | adv 6 | dial fail,ok | adv 6")
    # an immediate connect() failure of every errno class (network / host unreachable, address not available, timed out,
    # permission): nothing is left registered, the peer is dialled again after its wait
    for k in ("failU", "failH", "failA", "failT", "failX"):
        out.append(nodegen.CONFIGS["out"] + f" | start {k},{k} | tick | adv 6 | dial {k},ok | adv 6 | tick")
        out.append(nodegen.CONFIGS["out"] + f" | start ok,{k} | rx 0 " + nodegen.cea(2001, "peer1.x", 2001, 268435464) + f" | eof 0 | dial {k} | adv 6 | dial ok | adv 6 | tick")
    # a dialled peer answers with its name in another spelling (host identities compare case-insensitively); the connection
    # then ends in each way: the peer's record is released and it is dialled again
    for spell in ("PEER1.X", "Peer1.x"):
        for end in ("eof 0", "rerr 0 hard", "rx 0 " + nodegen.dpr(n(), n(), spell) + " | eof 0", "adv 9 | adv 4"):
            out.append(nodegen.CONFIGS["out"] + " | start ok,fail | rx 0 " + nodegen.cea(2001, spell, 2001, 268435464, auth="4") +
                       f" | tick | {end} | tick | adv 6 | tick")
    # the peer is *configured* with capitals in its name and dialled: the dial fails at once, the connect result is a failure,
    # the CEA never comes, the CEA comes (in the configured or in lower-case spelling) and the connection ends
    for name in ("Dra1.Example.X", "PEER1.X"):
        capcfg = nodegen.CONFIGS["out"].replace("peer1.x", name)
        out.append(capcfg + " | start fail,fail | tick | adv 6 | dial fail,ok | adv 6 | tick")
        out.append(capcfg + " | start inp,ok | conn 0 fail | tick | adv 6 | tick")
        out.append(capcfg + " | start ok,ok | adv 5 | tick | adv 6 | tick")
        for spell in (name, name.lower()):
            for end in ("eof 0", "rerr 0 hard", "adv 40 | adv 5"):
                out.append(capcfg + " | start ok,ok | rx 0 " + nodegen.cea(2001, spell, 2001, 268435464, auth="4") + f" | tick | {end} | tick | adv 6 | tick")
    # a persistent peer without addresses (it always connects by itself): after its connection is gone the reconnect passes
    # have nothing to dial, and the record of the disconnect stays
    noaddr = (f"NODE host={nodegen.HOST};realm={nodegen.REALM};peer:peer1.x,{nodegen.REALM},1,1,3,0,0,-,-,-,-;"
              f"peer:peer2.x,{nodegen.REALM},1,0,3,0,0,-,-,-,-;app:4,1,0,b,0,0+1,-")
    for end in ("eof 0", "rerr 0 hard", "rx 0 " + nodegen.dpr(n(), n()) + " | eof 0"):
        out.append(noaddr + " | start | acc | rx 0 " + nodegen.cer("peer1.x", "4", n(), n()) + f" | {end} | tick | adv 4 | tick | adv 4 | tick")
        out.append(noaddr + " | start | acc | rx 0 " + nodegen.cer("peer2.x", "4", n(), n()) + f" | {end} | tick | adv 4 | tick")
    # two connections fail on a write in the same pass of the I/O loop (both close themselves and signal the node)
    out.append(two + " | start | acc | rx 0 " + nodegen.cer("peer1.x", "4+3", n(), n(), extra=",acct=3") + " | acc | rx 1 " +
               nodegen.cer("peer2.x", "4+3", n(), n(), extra=",acct=3") + " | wr 0 hard | wr 1 hard | rxm 0:" +
               nodegen.dwr(n(), n()) + " 1:" + nodegen.dwr(n(), n(), "peer2.x") + " | tick | tick")
    # the CER arrives in the very pass in which the CER timeout expires (the bytes are handed to the reader, then the timer
    # closes the connection): whatever the reader still does with them, no table entry and no readiness comes back
    for cfgn in ("two", "basic"):
        late = nodegen.CONFIGS[cfgn] + " | start | acc | advrx 5 0 " + nodegen.cer("peer1.x", "4", n(), n()) + " | tick | adv 1 | tick"
        out += [late, nodecheck.eager(late)]       # (the eager schedule lets the reader handle what it was handed before the close)
    # one application whose peers sit in different realms: it stays ready while any of them has a ready connection
    xr = ("NODE host=node.local;realm=realm.local;peer:peer1.x,realm.local,0,0,30,1,0,-,-,-,-;"
          "peer:peer2.x,realm.b,0,0,30,1,0,-,-,-,-;peer:peer3.x,realm.c,0,0,30,1,0,-,-,-,-;"
          "app:4,1,0,b,0,0+1,-;app:3,0,1,b,0,1+2,extra.realm")
    for gone in ("eof 1", "eof 0", "eof 2", "rx 1 " + nodegen.dpr(n(), n(), "peer2.x") + " | eof 1"):
        out.append(xr + " | start | " + " | ".join(f"acc | rx {k} " + nodegen.cer(f"peer{k + 1}.x", "4+3", n(), n(), extra=",acct=3")
                                                   for k in range(3)) + f" | {gone} | tick")
    # the node's name sorts after the peer's (RFC 6733 5.6.4 elections compare the names): a second connection of a connected peer
    hi = nodegen.CONFIGS["two"].replace("host=node.local", "host=zz.local")
    out.append(hi + " | start | acc | rx 0 " + nodegen.cer("peer1.x", "4", n(), n()) + " | acc | rx 1 " +
               nodegen.cer("peer1.x", "4", n(), n()) + " | tick | rx 1 " + nodegen.dwr(n(), n()) + " | tick")
    # recorded finding (second_connection_orphaned): a dialled peer also connects by itself, then the dialled connection ends
    out.append(nodegen.CONFIGS["out"] + " | start ok,ok | acc | rx 2 " + nodegen.cer("peer2.x", "4+3", n(), n(), extra=",acct=3") +
               " | eof 1 | tick")
    # a configured peer announcing its identity in another spelling
    for spell in ("Peer1.X", "PEER1.X", "peer1.X"):
        out.append(two + " | start | acc | rx 0 " + nodegen.cer(spell, "4", n(), n()) + " | tick | rx 0 " + nodegen.dwr(n(), n(), spell) +
                   " | eof 0 | tick")
    # two ready peers of one application, one of them awaiting a DWA, then the other connection ends
    for closer in ("eof 0", "rerr 0 hard", "rx 0 " + nodegen.dpr(n(), n()) + " | eof 0", "eof 1"):
        for wait in ("adv 11", "adv 11 | rx 0 " + nodegen.dwa(n(), n()), "adv 11 | rx 1 " + nodegen.dwa(n(), n(), "peer2.x")):
            out.append(two + " | start | acc | rx 0 " + nodegen.cer("peer1.x", "4+3", n(), n(), extra=",acct=3") + " | acc | rx 1 " +
                       nodegen.cer("peer2.x", "4+3", n(), n(), extra=",acct=3") + f" | {wait} | {closer} | tick")
    # a DWR of ours is unanswered, the peer sends its DPR, another connection goes away, then the late DWA arrives
    for other_end in ("eof 1", "rerr 1 hard", "rx 1 " + nodegen.dpr(n(), n(), "peer2.x") + " | eof 1"):
        out.append(two + " | start | acc | rx 0 " + nodegen.cer("peer1.x", "4+3", n(), n(), extra=",acct=3") + " | acc | rx 1 " +
                   nodegen.cer("peer2.x", "4+3", n(), n(), extra=",acct=3") + " | adv 11 | rx 0 " + nodegen.dpr(n(), n()) +
                   f" | {other_end} | rx 0 " + nodegen.dwa(n(), n()) + " | tick | eof 0 | tick")
        out.append(two + " | start | acc | rx 0 " + nodegen.cer("peer1.x", "4+3", n(), n(), extra=",acct=3") + " | acc | adv 11 | rx 0 " +
                   nodegen.dpr(n(), n()) + " | eof 1 | rx 0 " + nodegen.dwa(n(), n()) + " | tick")
    alphabet = lambda c: [  # noqa: E731
        "acc", f"rx {c} " + nodegen.cer(rng.choice(["peer1.x", "peer2.x", "Peer1.X", "PEER2.x"]), rng.choice(["4", "99", "4+3"]), n(), n()),
        f"rx {c} " + nodegen.cer("stranger.x", "4", n(), n()), f"rx {c} " + nodegen.cea(2001, rng.choice(["peer1.x", "peer2.x"]), n(), n()),
        f"rx {c} " + nodegen.cea(5010, "peer1.x", n(), n()), f"rx {c} " + nodegen.dpr(n(), n()), f"rx {c} " + nodegen.dpa(n(), n()),
        f"eof {c}", f"rerr {c} hard", f"adv {rng.choice([1, 3, 4, 5, 6, 11])}", f"conn {c} ok", f"conn {c} fail",
        f"wr {c} hard", f"rx {c} " + nodegen.dwr(n(), n()), "dial " + rng.choice(["ok", "inp", "fail", "failU", "failT"]),
    ]
    for i in range(250 if tier == "quick" else 5000):
        cfgn = rng.choice(["two", "out", "basic", "rq"])
        cfg_line_ = nodegen.CONFIGS[cfgn] if rng.random() < 0.7 else nodegen.random_config(rng)
        evs = ["start " + ",".join(rng.choice(["ok", "inp", "fail"]) for _ in range(3))]
        nc = nodegen.dials_at_start(cfg_line_)
        for _ in range(8 if tier == "quick" else 12):
            c = rng.randrange(0, max(1, nc + 1))
            e = rng.choice(alphabet(c))
            if e == "acc":
                nc += 1
            evs.append(e)
        evs.append("tick")
        out.append(cfg_line_ + " | " + " | ".join(evs))
    return out


def run(res: Result, tier: str, seed: int):
    rng = random.Random(seed * 1000003 + 13)
    res.rule = ("histories of depth 8 (quick) / 12 (thorough) over {dial, accept, CER/CEA of every outcome, second connection of a "
                "connected peer, DPR, DPA, peer gone, socket error, timeout, hard write error} on 1..3 peers and 1..3 applications; "
                "invariant evaluated on the node's public attributes after every event; real vs model on CONN/PEER/APPS/SIZE")
    return nodecheck.run(res, scenarios(rng, tier), KEEP, oracle)


def signature(f: dict):
    return f.get("sig")


def search(res: Result, seed: int, broken) -> list:
    rng = random.Random(seed * 7919 + 61)
    r2 = Result(PROP, "thorough", seed)
    fails, _ = nodecheck.run(r2, scenarios(rng, "quick"), KEEP, oracle)
    return fails
