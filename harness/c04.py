"""C04 — decoding hostile bytes terminates and raises only library decode errors."""
from __future__ import annotations

import random
import time

from common import Result
import gen
from codecdiff import Diff, entries, build_pool

PROP = "C04"
MODULES = ["DV.Properties.C04", "DV.Properties.ConfigTie"]

DECODE_ERRS = {"EXC ConversionError", "EXC AvpDecodeError"}


def malformed(ty: int, p: bytes) -> bool:
    """Independent statement of 'the payload is malformed for its type' (RFC 6733 4.2/4.3), only where it is clear-cut:
    fixed-size types of another size, invalid UTF-8, an Address too short for its family field or of the wrong size for
    IPv4/IPv6."""
    if ty in (2, 5, 8, 11):
        return len(p) != 4
    if ty in (3, 6, 9):
        return len(p) != 8
    if ty == 10:
        try:
            p.decode("utf-8")
            return False
        except UnicodeDecodeError:
            return True
    if ty == 1:
        if len(p) < 2:
            return True
        fam = int.from_bytes(p[:2], "big")
        return (fam == 1 and len(p) != 6) or (fam == 2 and len(p) != 18)
    return False        # (Grouped: the library reads members with a too small length field leniently; not judged here)


_TYPES: dict = {}


def type_of(code: int, vendor: int):
    if not _TYPES:
        from realcodec import TY_TAG
        for c, v, e in entries():
            _TYPES[(c, v)] = TY_TAG.get(getattr(e.get("type"), "__name__", ""))
    return _TYPES.get((code, vendor))


def classify(line: str, r: str, fails: list, res: Result):
    cmd = line.split(" ", 1)[0]
    if cmd == "MSGDEC" and not r.startswith("EXC") and " UNDEF " in r:
        # a command without typed class: every top-level value has been read to build the attributes; a top-level AVP (found
        # with the independent parser, header size by the V flag) whose payload is malformed for its dictionary type must have
        # raised the decode error
        try:
            data = bytes.fromhex(line.split(" ")[1])
            avps = gen.rfc_parse_avps(data[20:]) if len(data) >= 20 and int.from_bytes(data[1:4], "big") == len(data) else []
        except (gen.WireError, ValueError):
            avps = []
        for code, vendor, _fl, payload in avps:
            ty = type_of(code, vendor)
            if ty is not None and malformed(ty, payload):
                fails.append({"what": "a payload that is malformed for its type was read as a value instead of raising the "
                                      "documented AVP decode error (top-level AVP of a command without typed class)",
                              "line": line[:800], "real": r[:300], "avp": f"{code}.{vendor} type {ty} payload {payload.hex()[:40]}"})
                return
    if cmd == "AVPVAL" and not r.startswith(("EXC", "UNSTABLE")):
        t = line.split(" ")
        if malformed(int(t[1]), bytes.fromhex(t[2]) if len(t) > 2 else b""):
            fails.append({"what": "a payload that is malformed for its type was read as a value instead of raising the "
                                  "documented AVP decode error", "line": line[:600], "real": r[:200]})
            return
    if r == "EXC Timeout(skipped)":
        return
    if r.startswith("UNSTABLE"):
        fails.append({"what": "reading the same malformed value twice gives different outcomes (the decode error is not raised again)",
                      "line": line[:600], "real": r[:300]})
        return
    if r == "EXC Timeout":
        fails.append({"what": "decoder did not terminate within the time budget", "line": line[:600], "real": r})
        return
    if not r.startswith("EXC"):
        return
    res.count("err:" + r)
    if cmd in ("MSGDEC", "AVPDEC", "FIND"):
        bad = [x for x in ([r] if cmd != "FIND" else [t for t in r.split(" ") if False]) if x not in DECODE_ERRS]
        if cmd != "FIND" and r not in DECODE_ERRS:
            fails.append({"what": "decoding raised something other than the library's decode errors",
                          "line": line[:600], "real": r})
    elif cmd == "AVPVAL":
        if r != "EXC AvpDecodeError":
            fails.append({"what": "reading a malformed value raised something other than AvpDecodeError",
                          "line": line[:600], "real": r})
    elif cmd == "AVPSTR":
        if r != "EXC AvpDecodeError":
            fails.append({"what": "rendering a decoded AVP as text raised", "line": line[:600], "real": r})


def length_field_offsets(data: bytes) -> list[tuple[int, int]]:
    """(offset, width) of the message length and of every AVP length field,
    recursively, found with the independent parser."""
    out = [(1, 3)]
    gk = None

    def walk(buf: bytes, base: int, depth: int):
        pos = 0
        while pos + 8 <= len(buf):
            flags = buf[pos + 4]
            length = int.from_bytes(buf[pos + 5:pos + 8], "big")
            hdr = 12 if flags & 0x80 else 8
            out.append((base + pos + 5, 3))
            if length < hdr or pos + (length + 3) // 4 * 4 > len(buf):
                return
            if depth < 16:
                inner = buf[pos + hdr:pos + length]
                try:
                    gen.rfc_parse_avps(inner)
                    if inner:
                        walk(inner, base + pos + hdr, depth + 1)
                except gen.WireError:
                    pass
            pos += (length + 3) // 4 * 4
    walk(data[20:], 20, 0)
    return out


def run_cases(res: Result, rng: random.Random, n_msgs: int, n_random: int, fails: list):
    from realcodec import ty_of
    d = Diff(res)

    def add(line):
        r = d.add(line)
        classify(line, r, fails, res)
        return r
    pool = build_pool(d, rng, 60, 5, 12)
    from diameter.message.commands import all_commands
    codes = sorted(all_commands)
    # valid base messages
    msgs = []
    for i in range(n_msgs):
        n = rng.choice([0, 1, 2, 4, 8])
        avps = [rng.choice(pool) for _ in range(n)]
        code = rng.choice([257, 280, 282, 272, 271, rng.choice(codes), 999])
        flags = rng.choice([0x80, 0x00, 0xc0, 0x40])
        body = b"".join(gen.avpobj_wire(a) for a in avps)
        msgs.append(gen.rfc_header(1, 20 + len(body), flags, code, rng.getrandbits(32), rng.getrandbits(32),
                                   rng.getrandbits(32)) + body)
    # repeated AVPs of one name (2..3 times) of every type, at top level and inside a grouped AVP, in commands with and
    # without a typed class (an untyped message collects repeated AVPs into a list under the AVP's name)
    by_ty_codes = {}
    for code_e, vendor_e, e in entries():
        by_ty_codes.setdefault(ty_of(e["type"](0)), []).append((code_e, vendor_e))
    samples = {1: [b"\x00\x01\x0a\x00\x00\x01", b"\x00\x02" + bytes(16), b"\x00\x08123"], 2: [bytes(4)], 3: [bytes(8)],
               5: [bytes(4)], 6: [bytes(8)], 7: [b"oct"], 8: [b"\x00\x00\x00\x07"], 9: [bytes(8)], 10: [b"text"],
               11: [b"\xe0\x00\x00\x00"], 4: [gen.rfc_wire(263, 0, 0x40, b"s")]}
    for ty_k, payloads in samples.items():
        for (code_e, vendor_e) in by_ty_codes.get(ty_k, [])[:2]:
            for reps in (2, 3):
                one = [gen.rfc_wire(code_e, vendor_e, (0x80 if vendor_e else 0) | 0x40, payloads[i % len(payloads)]) for i in range(reps)]
                body = b"".join(one)
                for code_m in (999, 7777, 257, 272):
                    msgs.append(gen.rfc_header(1, 20 + len(body), 0x80, code_m, 4, 1, 2) + body)
                    grp = gen.rfc_wire(456, 0, 0x40, body)
                    msgs.append(gen.rfc_header(1, 20 + len(grp), 0x80, code_m, 4, 1, 2) + grp)
    # deep nesting (depth 16) of one grouped AVP
    inner = gen.rfc_wire(263, 0, 0x40, b"x")
    for _ in range(16):
        inner = gen.rfc_wire(456, 0, 0x40, inner)
    msgs.append(gen.rfc_header(1, 20 + len(inner), 0x80, 272, 4, 1, 2) + inner)
    for m in msgs:
        hexs = m.hex()
        add(f"MSGDEC {hexs} 0")
        add(f"MSGDEC {hexs} 1")
        # every prefix (sampled for long messages)
        cuts = range(len(m)) if len(m) <= 120 else sorted(set(rng.randrange(len(m)) for _ in range(60)) | set(range(0, 40)))
        for c in cuts:
            add(f"MSGDEC {m[:c].hex()} {rng.choice('01')}")
        # bit flips
        for _ in range(12):
            b = bytearray(m)
            for _k in range(rng.choice([1, 1, 2, 5])):
                i = rng.randrange(len(b))
                b[i] ^= 1 << rng.randrange(8)
            add(f"MSGDEC {bytes(b).hex()} {rng.choice('01')}")
        # every length field x boundary values
        for off, w in length_field_offsets(m):
            for v in (0, 1, 7, 8, 11, 12, len(m) - 1, len(m) + 1, 2**24 - 1):
                b = bytearray(m)
                b[off:off + w] = (v % 2**24).to_bytes(3, "big")
                add(f"MSGDEC {bytes(b).hex()} {rng.choice('01')}")
    # every AVP type x payload lengths 0..20 x contents
    ents = entries()
    by_ty: dict[int, list] = {}
    for code, vendor, e in ents:
        by_ty.setdefault(ty_of(e["type"](0)), []).append((code, vendor))
    for ty in range(0, 12):
        for n in range(0, 21):
            payloads = [bytes(n), b"\xff" * n, gen.rand_bytes(rng, n), gen.rand_bytes(rng, n)]
            if n >= 2:
                payloads += [b"\x00\x01" + gen.rand_bytes(rng, n - 2), b"\x00\x02" + gen.rand_bytes(rng, n - 2),
                             b"\x00\x08" + b"\xc3\x28" * ((n - 2) // 2) + b"\x80" * ((n - 2) % 2),
                             b"\x00\x09" + gen.rand_bytes(rng, n - 2)]
            payloads += [(b"\xed\xa0\x80" * 7)[:n], (b"\xf4\x90\x80\x80" * 6)[:n], (b"\xc0\xaf" * 10)[:n]]
            for p in payloads:
                add(f"AVPVAL {ty} {p.hex()}")
                if ty in by_ty:
                    code, vendor = rng.choice(by_ty[ty])
                    wire = gen.rfc_wire(code, vendor, (0x80 if vendor else 0) | 0x40, p)
                    add(f"AVPSTR {wire.hex()}")
                    r = add(f"AVPDEC {wire.hex()}")
                    # inside a typed and an untyped message
                    if rng.random() < 0.3:
                        body = wire
                        for code_m, fl in ((257, 0x80), (999, 0x80), (272, 0x00), (8388733, 0x80)):
                            add(f"MSGDEC {(gen.rfc_header(1, 20 + len(body), fl, code_m, 0, 1, 2) + body).hex()} 0")
    # long values (rendering abbreviates / wraps nothing: any length must render)
    for ty in range(0, 12):
        if ty not in by_ty:
            continue
        for n in (63, 64, 65, 66, 127, 128, 129, 255, 256, 257, 1000, 4096):
            for p in (bytes(n), gen.rand_bytes(rng, n), (b"abcdefghij" * 500)[:n], (b"\xc3\xa4" * 2100)[:n]):
                code, vendor = rng.choice(by_ty[ty])
                wire = gen.rfc_wire(code, vendor, (0x80 if vendor else 0) | 0x40, p)
                add(f"AVPSTR {wire.hex()}")
                add(f"AVPDEC {wire.hex()}")
        wire = gen.rfc_wire(999999, 0, 0x40, gen.rand_bytes(rng, 200))      # not in the dictionary
        add(f"AVPSTR {wire.hex()}")
    # grouped payloads: valid member(s) followed by a malformed member
    for i in range(40):
        good = b"".join(gen.avpobj_wire(rng.choice(pool)) for _ in range(rng.randrange(1, 4)))
        bad_tails = [b"\x00\x00\x01\x07\x40\x00\x00\x20abcd", b"\x00\x00\x01", gen.rand_bytes(rng, 7),
                     b"\x00\x00\x01\x07\x40\xff\xff\xffab", gen.rand_bytes(rng, 11)]
        p = good + rng.choice(bad_tails)
        add(f"AVPVAL 4 {p.hex()}")
        wire = gen.rfc_wire(456, 0, 0x40, p)
        add(f"AVPSTR {wire.hex()}")
        add(f"MSGDEC {(gen.rfc_header(1, 20 + len(wire), 0x80, rng.choice([272, 999]), 4, 1, 2) + wire).hex()} 0")
    # well-formed Grouped AVPs nested 1..16 deep (different grouped codes, a scalar or nothing innermost), in commands with
    # and without a typed class, decoded both ways
    gcodes = [456, 443, 260, 873, 874, 297]
    for depth in range(1, 17):
        for inner in (b"", gen.rfc_wire(263, 0, 0x40, b"s;1"), gen.rfc_wire(432, 0, 0x40, (7).to_bytes(4, "big"))):
            w = inner
            for lvl in range(depth):
                gcode = gcodes[(depth + lvl) % len(gcodes)]
                w = gen.rfc_wire(gcode, 10415 if gcode in (873, 874) else 0, (0x80 if gcode in (873, 874) else 0) | 0x40, w)
            for cmd_code in (999, 283, 272):
                data = gen.rfc_header(1, 20 + len(w), 0x80, cmd_code, 4, 1, 2) + w
                add(f"MSGDEC {data.hex()} 0")
                add(f"MSGDEC {data.hex()} 1")
            add(f"AVPSTR {w.hex()}")
    # vendor-specific AVPs of every vendor the dictionary knows -- also those whose table ships empty -- of their neighbours
    # and of vendors nobody knows: unknown and known codes, at top level and inside a group, in typed and untyped commands
    from realcodec import D as _D
    vend = sorted(v for v in _D.AVP_VENDOR_DICTIONARY if v)
    for v in sorted(set(vend + [x + 1 for x in vend] + [1, 55555, 2**32 - 1])):
        for code in (999999, 1, 263):
            one = gen.rfc_wire(code, v, 0x80 | rng.choice([0, 0x40]), gen.rand_bytes(rng, rng.choice([0, 3, 4, 8])))
            add(f"AVPDEC {one.hex()}")
            add(f"AVPSTR {one.hex()}")
            grp = gen.rfc_wire(456, 0, 0x40, one)
            add(f"AVPSTR {grp.hex()}")
            for cmd_code in (999, 272):
                body = rng.choice([one, grp])
                add(f"MSGDEC {(gen.rfc_header(1, 20 + len(body), 0x80, cmd_code, 4, 1, 2) + body).hex()} {rng.choice('01')}")
    # uniformly random bytes
    for i in range(n_random):
        n = rng.choice([0, 1, 7, 8, 12, 19, 20, 21, 28, 40, 100, rng.randrange(0, 400)])
        b = gen.rand_bytes(rng, n)
        add(f"MSGDEC {b.hex()} {rng.choice('01')}")
        add(f"AVPDEC {b.hex()}")
        add(f"AVPSTR {b.hex()}")
    # every prefix of single AVPs and AVP pairs with unaligned payloads (cuts inside header, payload and padding)
    for plen in (1, 2, 3, 5, 6, 7, 9):
        for vend in (0, 10415):
            one = gen.rfc_wire(rng.choice([1, 25, 263, 999999]), vend, 0xC0 if vend else 0x40, gen.rand_bytes(rng, plen))
            two = one + gen.rfc_wire(25, 0, 0x40, gen.rand_bytes(rng, plen + 1))
            for w in (one, two):
                for cut in range(0, len(w) + 1):
                    add(f"AVPDEC {w[:cut].hex()}")
                    if cut > len(w) - 4:
                        add(f"AVPVAL 4 {w[:cut].hex()}")        # as the payload of a grouped AVP
    # position never beyond the buffer
    for l, r in zip(d.lines, d.real):
        if l.startswith("AVPDEC") and not r.startswith("EXC"):
            pos = int(r.split(" ")[1])
            if pos > len(l.split(" ")[1]) // 2:
                fails.append({"what": "decoder position beyond the supplied buffer", "line": l[:400], "real": r[:200]})
    for s in d.lines[len(d.lines) // 3: len(d.lines) // 3 + 4]:
        res.sample({"line": s[:200]})
    return d


def timing_evidence(res: Result, rng: random.Random):
    """Supporting evidence only: wall-clock of the real decoder at 1..64 KiB."""
    from diameter.message import Message
    out = {}
    for kib in (1, 4, 16, 64):
        avp = gen.rfc_wire(263, 0, 0x40, b"x" * 52)     # 64 octets
        body = avp * (kib * 16)
        data = gen.rfc_header(1, 20 + len(body), 0x80, 999, 0, 1, 2) + body
        t = time.perf_counter()
        Message.from_bytes(data)
        out[f"{kib}KiB"] = round(time.perf_counter() - t, 4)
    res.extra["decode_seconds"] = out
    if out["64KiB"] > 64 * max(out["1KiB"], 1e-4) * 8:
        return [{"what": "decode time grows faster than linearly (supporting measurement)", "line": str(out)}]
    return []


def render_headers(res: Result, rng: random.Random) -> list:
    """Rendering a decoded message header (and the message) as text never raises: every flag octet, boundary
    versions / lengths / codes / identifiers; typed, untyped-placeholder and unknown commands."""
    from diameter.message import Message, MessageHeader
    out = []
    bad = 0
    for flags in range(256):
        for code in (257, 272, 280, 999, 8388620, 0, 2 ** 24 - 1):
            ver = rng.choice([1, 0, 255])
            ids = [rng.choice([0, 1, 2 ** 31, 2 ** 32 - 1]) for _ in range(3)]
            wire = gen.rfc_header(ver, 20, flags, code, *ids)
            res.cases += 1
            try:
                h = MessageHeader.from_bytes(wire)
                str(h)
                repr(h)
            except Exception as e:  # noqa
                bad += 1
                if len(out) < 3:
                    out.append({"what": f"rendering a decoded message header as text raised {type(e).__name__}: {e}",
                                "line": f"HEADERSTR {wire.hex()}"})
                continue
            try:
                m = Message.from_bytes(wire)
            except Exception:  # noqa   (judged by MSGDEC)
                continue
            try:
                str(m)
                str(m.header)
            except Exception as e:  # noqa
                bad += 1
                if len(out) < 3:
                    out.append({"what": f"rendering a decoded message as text raised {type(e).__name__}: {e}",
                                "line": f"MSGSTR {wire.hex()}"})
    res.count("header-render", 256 * 7)
    return out


def run(res: Result, tier: str, seed: int):
    rng = random.Random(seed * 1000003 + 4)
    res.rule = ("valid messages (incl. nesting 16) x every prefix, bit flips, every length field x 9 boundary values; every AVP "
                "type x payload length 0..20 x invalid contents, bare / str() / inside typed+untyped messages; random bytes; "
                "real vs model outcome (result or exception class, position); oracle: exception class in library decode "
                "errors, position <= len, wall-clock guard; non-trivial = distinct lines the real code did not reject")
    fails: list = []
    d = run_cases(res, rng, 12 if tier == "quick" else 150, 400 if tier == "quick" else 20000, fails)
    fails += render_headers(res, rng)
    fails += timing_evidence(res, rng)
    return fails, d.compare()


def signature(f: dict):
    return None


def search(res: Result, seed: int, broken) -> list:
    rng = random.Random(seed * 7919 + 31)
    fails: list = []
    r2 = Result(PROP, "thorough", seed)
    run_cases(r2, rng, 40, 3000, fails)
    res.extra["search_cases"] = r2.cases
    return fails
