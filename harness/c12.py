"""C12 — disconnect-peer handling and reconnect policy."""
from __future__ import annotations

import random

from common import Result
import nodegen
import nodecheck
from nodecheck import Obs, kv, parse_msg, parse_cfg

PROP = "C12"
MODULES = ["DV.Properties.C12", "DV.Properties.C12Hist", "DV.Properties.C12Own", "DV.Properties.ConfigTie", "DV.Properties.C12Dpr"]
KEEP = {"OUT": None, "CONN": ["state", "dir", "name", "live"], "PEER": ["conn", "reason", "disc"], "APP": None}
T0 = 1700000000


def oracle(line: str, obs: Obs):
    cfg = parse_cfg(line)
    fails = []
    now = T0
    peers = {p["name"]: p for p in cfg["peers"]}
    canon = {n.lower(): n for n in peers}        # host names are case-insensitive
    pstate = {n: {"conn": "-", "reason": "-", "disc": "0", "last_disc": None} for n in peers}
    cstate = {}
    known_conns = set()
    dpr_seen = set()
    stopping = False
    simple = True
    ce_count: dict = {}
    dialled_as: dict = {}
    # why each peer was last disconnected, worked out from the events alone: "DPR" when the peer announced it on the
    # connection that then ended, None once a new connection of the peer has completed its capabilities exchange
    my_reason = {n: None for n in peers}
    prev_live: dict = {}
    for ev, lines in obs.blocks:
        t = ev.split(" ")
        if t[0] == "rx":
            # a second CER/CEA on one connection, or a CEA claiming another identity than the peer that was dialled, is
            # outside the histories the property speaks about: nothing is judged from there on
            for d in t[2:]:
                try:
                    m0 = parse_msg(d)
                except Exception:  # noqa
                    continue
                if m0["cmd"] == 257:
                    ce_count[t[1]] = ce_count.get(t[1], 0) + 1
                    dn = dialled_as.get(f"c{t[1]}")
                    oh = m0["keys"].get("oh")
                    if not m0["R"] and dn and oh is not None and oh.lower() != dn.lower():
                        return fails
            if any(v > 1 for v in ce_count.values()):
                return fails
        if t[0] == "adv":
            now += int(t[1])
        if t[0] in ("req",):
            simple = False
        if t[0] in ("stop", "stopin"):
            stopping = True
        before_p = {n: dict(v) for n, v in pstate.items()}
        before_c = dict(cstate)
        conns = {l.split(" ")[1]: kv(l) for l in lines if l.startswith("CONN ")}
        for k0, d in conns.items():
            d["name"] = canon.get(d["name"].lower(), d["name"])
            if d["dir"] == "S" and d["name"] != "-":
                dialled_as[k0] = d["name"]
        newc = [k for k in conns if k not in known_conns]
        known_conns |= set(conns)
        dialled = {}
        for k in newc:
            if conns[k]["dir"] == "S":
                dialled[conns[k]["name"]] = dialled.get(conns[k]["name"], 0) + 1
        for l in lines:
            if l.startswith("PEER "):
                n = l.split(" ")[1]
                d = kv(l)
                if pstate[n]["conn"] != "-" and d["conn"] == "-":
                    pstate[n]["last_disc"] = now          # the connection was lost at this instant
                elif d["disc"] == "1" and pstate[n]["last_disc"] is None:
                    pstate[n]["last_disc"] = now
                pstate[n].update(conn=d["conn"], reason=d["reason"], disc=d["disc"])
        # the peer's connections as the connections themselves show them (dialled under its name / identified as it by the
        # capabilities exchange) -- independent of the node's own Peer.connection record
        live_of = {n: [] for n in peers}
        for k0, d in conns.items():
            if d["live"] == "1" and d["state"] != "CLOSED":
                own0 = canon.get(d["name"].lower()) if d["name"] != "-" else canon.get(d.get("ident", "-").lower())
                if own0 in live_of:
                    live_of[own0].append(k0)
        prev_live_before = dict(prev_live)
        for n in peers:
            if prev_live.get(n) and not live_of[n] and pstate[n]["conn"] == "-" and before_p[n]["conn"] == "-" \
                    and t[0] in ("adv", "tick", "rx", "eof", "rerr", "io", "wr"):
                # the node's record never pointed at that connection: the loss is read off the connection
                pstate[n]["last_disc"] = now
            prev_live[n] = bool(live_of[n])
        for n, v in pstate.items():
            # a connection the node itself has marked closed is lost, whatever the peer record still says
            if v["conn"] != "-" and conns.get(v["conn"], {}).get("state") == "CLOSED" and t[0] in ("adv", "tick", "rx", "eof", "rerr"):
                v["conn"] = "-"
                if before_p[n]["conn"] != "-":
                    v["last_disc"] = now
        for k in newc:
            # a dial attempt that ended within the same step (refused at once) is a loss at this instant
            if conns[k]["dir"] == "S" and conns[k]["live"] == "0" and conns[k]["name"] in pstate:
                pstate[conns[k]["name"]]["last_disc"] = now
        for k, d in conns.items():
            if d["state"] in ("READY", "WAITDWA") and before_c.get(k) not in ("READY", "WAITDWA", "DISCONNECTING"):
                own = canon.get((d["name"] if d["name"] != "-" else d.get("ident", "-")).lower())
                if own in my_reason:
                    my_reason[own] = None           # a completed capabilities exchange starts a new life of the peer
            cstate[k] = d["state"]
        # DPR handling
        if t[0] == "rx" and len(t) == 3:
            c = f"c{t[1]}"
            m = parse_msg(t[2])
            if m["cmd"] == 282 and m["R"] and before_c.get(c) in ("READY", "WAITDWA", "DISCONNECTING"):
                outs = [kv(l) for l in lines if l.startswith(f"OUT {c} ")]
                if len(outs) != 1 or outs[0]["cmd"] != "282" or outs[0]["rc"] != "2001" or outs[0]["hbh"] != str(m["hbh"]):
                    fails.append({"what": "DPR not answered with a 2001 DPA", "event": ev[:200], "real": str(outs)[:300]})
                if conns.get(c, {}).get("state") in ("READY", "WAITDWA"):
                    fails.append({"what": "connection still offered for routing (ready state) after a DPR", "event": ev[:200],
                                  "real": str(conns.get(c))})
                owner = next((n for n, v in pstate.items() if v["conn"] == c or before_p[n]["conn"] == c), None)
                if owner and my_reason.get(owner) is None:
                    my_reason[owner] = "DPR"
                if owner and pstate[owner]["reason"] != "DPR":
                    fails.append({"what": "peer's disconnect reason does not record the DPR", "event": ev[:200],
                                  "real": str(pstate[owner])})
        # … and it stays out of routing until it is closed: never ready again, no request written to it
        for c in dpr_seen:
            st = conns.get(c, {}).get("state")
            if st in ("READY", "WAITDWA"):
                fails.append({"what": "connection back in a ready state (offered for routing) after its peer sent a DPR",
                              "event": ev[:200], "real": str(conns.get(c))})
            reqs = [l for l in lines if l.startswith(f"OUT {c} ") and kv(l)["R"] == "1" and kv(l)["cmd"] not in ("257", "280", "282")]
            if reqs:
                fails.append({"what": "request routed over a connection whose peer has sent a DPR", "event": ev[:200], "real": reqs[0]})
        if t[0] == "rx" and len(t) == 3 and parse_msg(t[2])["cmd"] == 282 and parse_msg(t[2])["R"] \
                and before_c.get(f"c{t[1]}") in ("READY", "WAITDWA"):
            dpr_seen.add(f"c{t[1]}")
        # reason DPR must survive the subsequent close
        for n, v in pstate.items():
            if before_p[n]["reason"] == "DPR" and v["reason"] not in ("DPR",) and v["conn"] == "-" and before_p[n]["conn"] != "-":
                fails.append({"what": "DPR disconnect reason overwritten by the subsequent close", "event": ev[:200], "real": str(v)})
        # reconnect policy at timer checks
        if simple and t[0] in ("adv", "tick") and not stopping:
            for n, p in peers.items():
                b = before_p[n]
                due = (p["persistent"] and b["conn"] == "-" and not prev_live_before.get(n) and b["last_disc"] is not None
                       and now - b["last_disc"] >= p["wait"] and not (my_reason.get(n) == "DPR" and not p["always"]) and p["addr"])
                got = dialled.get(n, 0)
                if due and got != 1:
                    fails.append({"what": f"persistent peer {n} not dialled although its reconnect wait ({p['wait']} s) has elapsed",
                                  "event": ev[:200], "real": f"before={b} now-last={now - b['last_disc']} dialled={got}"})
                if not due and got:
                    fails.append({"what": f"peer {n} dialled although the reconnect policy forbids it (not persistent / wait not "
                                          f"elapsed / disconnected by DPR / already connected)", "event": ev[:200],
                                  "real": f"before={b} dialled={got}"})
        if stopping and dialled and t[0] != "stop":           # (also in the pass the I/O loop finishes after a forced stop: `stopin`)
            fails.append({"what": "peer dialled while the node is stopping", "event": ev[:200], "real": str(dialled)})
        # never two live self-initiated connections to one peer
        live_out = {}
        for k, d in conns.items():
            if d["dir"] == "S" and d["live"] == "1" and d["state"] != "CLOSED":
                live_out[d["name"]] = live_out.get(d["name"], 0) + 1
        for n, cnt in live_out.items():
            if cnt > 1:
                fails.append({"what": "two self-initiated connections to the same peer are live", "event": ev[:200],
                              "real": str({k: d for k, d in conns.items() if d["name"] == n})[:400]})
    return fails


def cfg_line(persistent, always, wait, addr=1, name="peer1.x"):
    return (f"NODE host=node.local;realm=realm.local;cea=4;cer=4;idle=30;dwa=4;"
            f"peer:{name},realm.local,{persistent},{always},{wait},{addr},1,-,-,-,-;"
            f"peer:peer2.x,realm.local,1,0,3,1,0,-,-,-,-;app:4,1,0,b,0,0+1,-")


def scenarios(rng: random.Random, tier: str):
    out = []
    h = [400]

    def n():
        h[0] += 1
        return h[0]
    waits = [1, 2, 5] if tier == "quick" else [1, 2, 3, 5, 10, 30, 60]
    for persistent in (0, 1):
        for always in (0, 1):
            for wait in waits:
                for addr in (1, 0):
                    for rep in range(2 if tier == "quick" else 6):
                        plan = [rng.choice(["ok", "inp", "fail", "failH", "failA"]) for _ in range(6)]
                        evs = ["start " + ",".join(plan[:2])]
                        for _ in range(9 if tier == "quick" else 14):
                            c = rng.randrange(0, 4)
                            evs.append(rng.choice([
                                f"rx {c} " + nodegen.cea(2001, rng.choice(["peer1.x", "peer2.x"]), n(), n()),
                                f"rx {c} " + nodegen.cea(5010, "peer1.x", n(), n()),
                                f"rx {c} " + nodegen.dpr(n(), n()), f"eof {c}", f"rerr {c} hard", f"conn {c} ok", f"conn {c} fail",
                                f"adv {rng.choice([1, 2, wait, wait + 1, max(1, wait - 1), 5])}", f"adv {wait}", "tick",
                                "dial " + rng.choice(["ok", "inp", "fail"]), "acc",
                                f"rx {c} " + nodegen.cer("peer1.x", "4", n(), n()),
                            ]))
                        out.append(cfg_line(persistent, always, wait, addr) + " | " + " | ".join(evs))
    # DPR from an always-reconnect peer, connection ends, wait elapses -> dialled again (first and repeated losses)
    for wait in (2, 5):
        base = cfg_line(1, 1, wait) + " | start ok,ok | rx 0 " + nodegen.cea(2001, "peer1.x", n(), n())
        out.append(base + " | rx 0 " + nodegen.dpr(n(), n()) + f" | eof 0 | adv {wait - 1} | adv 1 | adv {wait}")
        out.append(base + f" | eof 0 | adv {wait} | conn 2 ok | rx 2 " + nodegen.cea(2001, "peer1.x", n(), n()) +
                   " | rx 2 " + nodegen.dpr(n(), n()) + f" | eof 2 | adv 1 | adv {wait - 1} | adv {wait}")
        out.append(cfg_line(1, 0, wait) + " | start ok,ok | rx 0 " + nodegen.cea(2001, "peer1.x", n(), n()) + " | rx 0 " +
                   nodegen.dpr(n(), n()) + f" | eof 0 | adv {wait} | adv {wait}")
    # the dialled peer announces its identity in another spelling (host names are case-insensitive)
    for spell in ("PEER1.X", "Peer1.x"):
        for wait in (2, 5):
            base = cfg_line(1, 1, wait) + " | start ok,ok | rx 0 " + nodegen.cea(2001, spell, n(), n())
            out.append(base + " | rx 0 " + nodegen.dpr(n(), n(), spell) + f" | eof 0 | adv {wait - 1} | adv 1 | adv {wait}")
            out.append(base + f" | eof 0 | adv {wait - 1} | adv 1 | adv {wait}")
            out.append(base + f" | rerr 0 hard | adv {wait} | adv {wait}")
            out.append(cfg_line(1, 0, wait) + " | start ok,ok | rx 0 " + nodegen.cea(2001, spell, n(), n()) + " | rx 0 " +
                       nodegen.dpr(n(), n(), spell) + f" | eof 0 | adv {wait} | adv {wait}")
    # the peer is configured with capitals in its name: losses, slow and failing redials
    for name in ("Dra1.Example.X", "PEER1.X"):
        for wait in (2, 5):
            base = cfg_line(1, 1, wait, name=name) + " | start ok,ok | rx 0 " + nodegen.cea(2001, name, n(), n())
            out.append(base + f" | eof 0 | adv {wait} | adv 1 | adv 1 | rx 2 " + nodegen.cea(2001, name, n(), n()) + f" | adv {wait}")
            out.append(base + f" | eof 0 | adv {wait - 1} | dial inp | adv 1 | adv 1 | conn 2 ok | adv 1 | rx 2 " +
                       nodegen.cea(2001, name, n(), n()) + " | adv 1")
            out.append(base + f" | rerr 0 hard | dial fail,fail | adv {wait} | adv 1 | adv {wait} | adv {wait}")
            out.append(base + " | rx 0 " + nodegen.dpr(n(), n(), name) + f" | eof 0 | adv {wait - 1} | adv 1 | adv {wait}")
    # a dialled, ready peer also connects by itself; that second connection ends (in each way): the dialled one is still
    # the peer's connection -- nothing is dialled while it lives, and the peer is dialled again once it has gone too
    for wait in (2, 5):
        for end2 in ("eof 2", "rerr 2 hard", "rx 2 " + nodegen.dpr(n(), n()) + " | eof 2"):
            base = (cfg_line(1, 1, wait) + " | start ok,ok | rx 0 " + nodegen.cea(2001, "peer1.x", n(), n()) + " | acc | rx 2 " +
                    nodegen.cer("peer1.x", "4", n(), n()) + f" | tick | {end2} | tick | adv {wait} | adv 1 | adv {wait}")
            out.append(base)
            out.append(base + f" | eof 0 | adv {wait - 1} | adv 1 | adv 1")
    # after a DPR the (persistent, not always-reconnect) peer comes back by itself, then that connection is lost without a
    # DPR: the old DPR no longer counts, the peer is dialled again after the wait
    for wait in (2, 5):
        for loss in ("eof 2", "rerr 2 hard"):
            out.append(cfg_line(1, 0, wait) + " | start ok,ok | rx 0 " + nodegen.cea(2001, "peer1.x", n(), n()) + " | rx 0 " +
                       nodegen.dpr(n(), n()) + f" | eof 0 | adv {wait} | acc | rx 2 " + nodegen.cer("peer1.x", "4", n(), n()) +
                       f" | tick | {loss} | adv {wait - 1} | adv 1 | adv {wait}")
    # a peer that is not persistent connects by itself and is lost (any way): it is never dialled, whatever always_reconnect says
    for always in (0, 1):
        for wait in (2, 5):
            for loss in ("eof 0", "rerr 0 hard", "rx 0 " + nodegen.dpr(n(), n()) + " | eof 0"):
                out.append(cfg_line(0, always, wait) + " | start ok | acc | rx 1 " + nodegen.cer("peer1.x", "4", n(), n()) + " | " +
                           loss.replace(" 0", " 1", 1).replace("eof 0", "eof 1") + f" | adv {wait} | adv 1 | adv {wait} | adv {wait}")
    # the connection is lost on a write (hard error from send()): same loss, same redial
    for wait in (2, 5):
        for always in (0, 1):
            base = cfg_line(1, always, wait) + " | start ok,ok | rx 0 " + nodegen.cea(2001, "peer1.x", n(), n())
            out.append(base + " | wr 0 hard | rx 0 " + nodegen.dwr(n(), n()) + f" | tick | adv {wait - 1} | adv 1 | adv {wait}")
            out.append(base + " | wr 0 soft,hard | rx 0 " + nodegen.dwr(n(), n()) + f" | tick | tick | adv {wait} | adv {wait}")
            out.append(base + " | wr 0 hard | req 0 " + nodegen.ccr(0, 0, "node.local") + f" 1 | tick | adv {wait} | adv {wait}")
    # DPR while a DWR of ours is unanswered (READY_WAITING_DWA), then a late DWA
    idle_cfg = cfg_line(1, 0, 5).replace("idle=30", "idle=3")
    out.append(idle_cfg + " | start ok,ok | rx 0 " + nodegen.cea(2001, "peer1.x", n(), n()) + " | adv 4 | rx 0 " +
               nodegen.dpr(n(), n()) + " | req 0 " + nodegen.ccr(0, 0, "node.local") + " 1 | rx 0 " + nodegen.dwa(n(), n()) +
               " | req 0 " + nodegen.ccr(0, 0, "node.local") + " 1")
    # three peers serve the application; the least used one sends a DPR: the next requests go to the other two
    cfg3 = ("NODE host=node.local;realm=realm.local;cea=4;cer=4;idle=30;dwa=4;"
            "peer:peer1.x,realm.local,0,0,5,1,0,-,-,-,-;peer:peer2.x,realm.local,0,0,5,1,0,-,-,-,-;"
            "peer:peer3.x,realm.local,0,0,5,1,0,-,-,-,-;app:4,1,0,b,0,0+1+2,-")
    pre3 = cfg3 + " | start | " + " | ".join(f"acc | rx {k} " + nodegen.cer(f"peer{k + 1}.x", "4", n(), n()) for k in range(3))
    rq = "req 0 " + nodegen.ccr(0, 0, "node.local") + " 1"
    for leaver in (2, 1, 0):
        # (the default selection prefers the peer that has sent the fewest requests: the others send some watchdogs first)
        chat = " | ".join(f"rx {k} " + nodegen.dwr(n(), n(), f"peer{k + 1}.x") for k in (0, 1, 2) if k != leaver for _ in range(3))
        out.append(pre3 + f" | {chat} | {rq} | rx {leaver} " + nodegen.dpr(n(), n(), f"peer{leaver + 1}.x") + f" | {rq} | {rq} | {rq}")
    # the peer repeats its DPR (the first DPA may have been lost): answered 2001 again, the reason stays DPR, no redial
    out.append(cfg_line(1, 0, 3) + " | start ok,ok | rx 0 " + nodegen.cea(2001, "peer1.x", n(), n()) + " | rx 0 " + nodegen.dpr(n(), n()) +
               " | rx 0 " + nodegen.dpr(n(), n()) + " | eof 0 | adv 3 | adv 3")
    out.append(cfg_line(0, 0, 3) + " | start | acc | rx 0 " + nodegen.cer("peer1.x", "4", n(), n()) + " | rx 0 " + nodegen.dpr(n(), n()) +
               " | rx 0 " + nodegen.dpr(n(), n()) + " | tick")
    # requests of the peer still unanswered by the application when its DPR arrives: the DPA is 2001 all the same
    for k in (1, 2):
        pend = " | ".join("rx 0 " + nodegen.ccr(n(), n(), "peer1.x") for _ in range(k))
        out.append(cfg_line(1, 0, 5) + " | start ok,ok | rx 0 " + nodegen.cea(2001, "peer1.x", n(), n()) + f" | {pend} | rx 0 " +
                   nodegen.dpr(n(), n()) + " | eof 0 | adv 5 | adv 5")
        out.append(cfg_line(0, 0, 5) + " | start | acc | rx 0 " + nodegen.cer("peer1.x", "4", n(), n()) + f" | {pend} | rx 0 " +
                   nodegen.dpr(n(), n()) + " | tick")
    # a forced stop arrives while the I/O loop sleeps; when it wakes up (dt seconds later) the reconnect wait of a lost
    # persistent peer has elapsed: the pass it still finishes dials nobody
    for wait, dt in ((3, 1), (3, 2), (2, 5)):
        out.append(cfg_line(1, 1, wait) + " | start ok,ok | rx 0 " + nodegen.cea(2001, "peer1.x", n(), n()) +
                   f" | eof 0 | adv {wait - 1} | stopin 1 {dt}")
        out.append(cfg_line(1, 0, wait) + f" | start fail,fail | adv {wait - 1} | stopin 1 {dt}")
    # DPR then request must not be routed over that connection
    out.append(cfg_line(1, 0, 5) + " | start ok,ok | rx 0 " + nodegen.cea(2001, "peer1.x", n(), n()) + " | rx 0 " + nodegen.dpr(n(), n()) +
               " | req 0 " + nodegen.ccr(0, 0, "node.local") + " 1 | eof 0 | adv 5 | adv 5")
    return out


def run(res: Result, tier: str, seed: int):
    rng = random.Random(seed * 1000003 + 12)
    res.rule = ("peer flags (persistent, always_reconnect, reconnect_wait, with/without addresses) x random sequences of connection "
                "outcomes (refused, in-progress then success/failure, CEA rejected, peer gone, socket error, DPR) x clock advances "
                "around the reconnect wait; oracle: DPA, not routable after DPR, reason kept, dial iff policy, single outbound; "
                "real vs model on OUT/CONN/PEER")
    return nodecheck.run(res, scenarios(rng, tier), KEEP, oracle)


def signature(f: dict):
    return None


def search(res: Result, seed: int, broken) -> list:
    rng = random.Random(seed * 7919 + 67)
    r2 = Result(PROP, "thorough", seed)
    fails, _ = nodecheck.run(r2, scenarios(rng, "quick"), KEEP, oracle)
    return fails
