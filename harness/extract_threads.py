"""Translator, part 2: source-line skeletons of the code that shares state
between threads — the identifier generators (C16) and the write path (C15) —
regenerated from the current source into lean/DV/Generated/Threads.lean."""
from __future__ import annotations

import ast
import inspect
import os
import sys
import textwrap

HERE = os.path.dirname(os.path.abspath(__file__))
GEN = os.path.join(os.path.dirname(HERE), "lean", "DV", "Generated")


def _mentions(node, attr: str) -> bool:
    return any(isinstance(n, ast.Attribute) and n.attr == attr and isinstance(n.value, ast.Name) and n.value.id == "self"
               for n in ast.walk(node))


def _is_self_attr(node, attr: str) -> bool:
    return isinstance(node, ast.Attribute) and node.attr == attr and isinstance(node.value, ast.Name) and node.value.id == "self"


class GenSkeleton:
    """instructions: dicts op/rel/next/alt, one per source line"""

    def __init__(self, func, counter="_sequence", maxname="MAX_SEQUENCE", minname="MIN_SEQUENCE"):
        self.counter, self.maxname, self.minname = counter, maxname, minname
        src = textwrap.dedent(inspect.getsource(func))
        fn = ast.parse(src).body[0]
        self.instrs: list[dict] = []
        self.notes: list[str] = []
        self.lock_depth = 0
        ends = self.block(fn.body)
        # falling off the end = return None: treat as an unknown line
        if ends:
            k = self.emit("unknown")
            self.patch(ends, k)
            self.notes.append("function can fall off its end")

    def emit(self, op, **kw) -> int:
        self.instrs.append({"op": op, "rel": False, "next": 0, "alt": 0, **kw})
        return len(self.instrs) - 1

    def patch(self, ends, target):
        for (i, field) in ends:
            self.instrs[i][field] = target

    def block(self, stmts, ends=None):
        """emits the statements; returns the dangling exits [(index, field)]"""
        ends = list(ends or [])
        for s in stmts:
            if isinstance(s, ast.Expr) and isinstance(s.value, ast.Constant):
                continue
            first = len(self.instrs)
            new_ends = self.stmt(s)
            self.patch(ends, first)
            ends = new_ends
        return ends

    def stmt(self, s):
        c = self.counter
        if isinstance(s, ast.With) and len(s.items) == 1 and s.items[0].optional_vars is None \
                and isinstance(s.items[0].context_expr, ast.Attribute) and "lock" in s.items[0].context_expr.attr:
            i = self.emit("lock")
            body_ends = self.block(s.body, [(i, "next")])
            # the lock is released when the last line(s) of the body finish
            for (j, _f) in body_ends:
                self.instrs[j]["rel"] = True
            return body_ends
        if isinstance(s, ast.If):
            t = s.test
            ok = (isinstance(t, ast.Compare) and len(t.ops) == 1 and isinstance(t.ops[0], ast.Eq)
                  and _is_self_attr(t.left, c) and _is_self_attr(t.comparators[0], self.maxname))
            i = self.emit("test" if ok else "unknown")
            e1 = self.block(s.body, [(i, "next")])
            e2 = self.block(s.orelse, [(i, "alt")]) if s.orelse else [(i, "alt")]
            return e1 + e2
        if isinstance(s, ast.Assign) and len(s.targets) == 1 and _is_self_attr(s.targets[0], c):
            if _is_self_attr(s.value, self.minname):
                i = self.emit("setMin")
            else:
                i = self.emit("unknown")
                self.notes.append("store to the counter: " + ast.unparse(s))
            return [(i, "next")]
        if isinstance(s, ast.AugAssign) and _is_self_attr(s.target, c) and isinstance(s.op, ast.Add) \
                and isinstance(s.value, ast.Constant) and s.value.value == 1:
            return [(self.emit("incr"), "next")]
        if isinstance(s, ast.Return):
            if s.value is not None and _mentions(s.value, c):
                if _is_self_attr(s.value, c):
                    self.emit("readRet")
                else:
                    self.emit("unknown")
                    self.notes.append("return reads the counter: " + ast.unparse(s))
            else:
                self.emit("ret")
            return []
        if isinstance(s, (ast.Assign, ast.AugAssign, ast.AnnAssign)):
            targets = s.targets if isinstance(s, ast.Assign) else [s.target]
            local_targets = all(isinstance(t, ast.Name) for t in targets)
            if local_targets and s.value is not None and _mentions(s.value, c):
                return [(self.emit("read"), "next")]
            if local_targets and not any(isinstance(n, ast.Call) and isinstance(n.func, ast.Attribute) and _mentions(n.func, c)
                                         for n in ast.walk(s)):
                return [(self.emit("loc"), "next")]
        i = self.emit("unknown")
        self.notes.append("unrecognised line: " + ast.unparse(s)[:80])
        return [(i, "next")]


def route_answer_shape(func) -> dict:
    """What `Node.route_answer` does to the pending-answer table between finding the
    request's hop-by-hop id and returning: kind in {strictDel, lenientPop, keep, unknown},
    the source lines (relative to the def) of the lookup test and of the removal."""
    src = textwrap.dedent(inspect.getsource(func))
    fn = ast.parse(src).body[0]
    tbl = "_peer_waiting_answer"

    def touches(n):
        return any(isinstance(x, ast.Attribute) and x.attr == tbl for x in ast.walk(n))
    lookup, removal, kind, notes = [], None, "keep", []
    if any(isinstance(n, ast.With) for n in ast.walk(fn)):
        notes.append("route_answer takes a lock: the two-step model does not describe it")
        kind = "unknown"
    for st in fn.body:
        if isinstance(st, ast.Expr) and isinstance(st.value, ast.Constant):
            continue
        if not touches(st):
            continue
        if isinstance(st, (ast.For, ast.While)) or (isinstance(st, ast.Assign) and not removal and not lookup):
            # the lookup: loop over the table with a membership test, or a comprehension / next(...)
            tests = [n for n in ast.walk(st) if isinstance(n, ast.Compare) and any(isinstance(o, ast.In) for o in n.ops)]
            lookup += [n.lineno for n in tests] or [st.lineno]
            continue
        if isinstance(st, ast.Delete):
            removal, kind = st.lineno, ("strictDel" if kind != "unknown" else kind)
            continue
        calls = [n for n in ast.walk(st) if isinstance(n, ast.Call) and isinstance(n.func, ast.Attribute)]
        pops = [c for c in calls if c.func.attr == "pop" and touches(c)]
        if pops and isinstance(st, (ast.Expr, ast.Assign)):
            c = pops[0]
            lenient = len(c.args) + len(c.keywords) >= 2 or any(
                isinstance(x, ast.Call) and isinstance(x.func, ast.Attribute) and x.func.attr in ("get", "setdefault")
                for x in ast.walk(c.func.value))
            removal, kind = st.lineno, (("lenientPop" if lenient else "strictDel") if kind != "unknown" else kind)
            continue
        kind = "unknown"
        notes.append("unrecognised statement on the pending-answer table: " + ast.unparse(st)[:80])
    if not lookup:
        kind = "unknown"
        notes.append("no lookup of the hop-by-hop id found in route_answer")
    return {"kind": kind, "lookup": lookup, "removal": removal, "notes": notes}


def lean_instr(d: dict) -> str:
    return "{ op := .%s, rel := %s, next := %d, alt := %d }" % (d["op"], "true" if d["rel"] else "false", d["next"], d["alt"])


def extract() -> dict:
    src = os.environ.get("DV_REPO_SRC", "/repo/src")
    if src not in sys.path:
        sys.path.insert(0, src)
    from diameter.node import _helpers as h
    assert os.path.abspath(h.__file__).startswith(os.path.abspath(src)), h.__file__
    seq = GenSkeleton(h.SequenceGenerator.next_sequence)
    sess = GenSkeleton(h.SessionGenerator.next_id)
    if HERE not in sys.path:
        sys.path.insert(0, HERE)
    import wpath
    import linesched
    try:
        # (a writer that blocks on something the harness does not stub -- another hand-off than the queue -- must not hang
        # the translator of every property: the program is then recorded as unobservable, which breaks C15's obligation only)
        with linesched.deadline(40):
            wp = wpath.observe_prog()
    except BaseException as e:  # noqa
        wp = {k: [] for k in ("wOk", "wFail", "lPrefix", "lOk", "lSoft", "lHard")}
        wp["notes"] = [f"write-path program could not be observed: {type(e).__name__}: {e}"]
    from diameter.node.node import Node
    ra = route_answer_shape(Node.route_answer)
    out = {
        "routeAnswer": ra,
        "wp": wp,
        "seq": seq.instrs, "sess": sess.instrs, "notes": seq.notes + sess.notes + wp.get("notes", []) + ra["notes"],
        "seqMin": h.SequenceGenerator.MIN_SEQUENCE, "seqMax": h.SequenceGenerator.MAX_SEQUENCE,
        "sessMin": h.SessionGenerator.MIN_SEQUENCE, "sessMax": h.SessionGenerator.MAX_SEQUENCE,
    }
    return out


def emit(x: dict, write_if_changed) -> bool:
    s = "-- GENERATED by harness/extract_threads.py from /repo's working tree. Do not edit.\n"
    s += "import DV.Model.Generators\nimport DV.Model.WritePath\nimport DV.Model.RouteRace\nimport DV.Generated.Constants\nnamespace DV.Gen\nopen DV.Gens\n\n"
    s += "def seqProgram : List Instr := [\n  " + ",\n  ".join(lean_instr(d) for d in x["seq"]) + " ]\n\n"
    s += "def sessProgram : List Instr := [\n  " + ",\n  ".join(lean_instr(d) for d in x["sess"]) + " ]\n\n"
    # (the MIN/MAX constants are in Generated/Constants.lean)
    wp = x["wp"]

    def atoms(l):
        return "[" + ", ".join("⟨.%s, %s⟩" % (k, "true" if lk else "false") for k, lk in l) + "]"
    s += "def writeProg : DV.WP.Prog :=\n  { " + "\n    ".join(
        f"{name} := {atoms(wp[name])}" for name in ("wOk", "wFail", "lPrefix", "lOk", "lSoft", "lHard")) + " }\n"
    s += "\n/-- what `Node.route_answer` does with the pending-answer entry after finding it -/\n"
    s += "def routeAnswerKind : DV.RR.Kind := .%s\n" % x["routeAnswer"]["kind"]
    s += "\nend DV.Gen\n"
    return write_if_changed(os.path.join(GEN, "Threads.lean"), s)


if __name__ == "__main__":
    import json
    x = extract()
    print(json.dumps(x, indent=1))
