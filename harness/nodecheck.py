"""Shared runner for the node-level checks: run scenarios on the real node (in
the virtual environment) and on the Lean model, compare the property's
projection, evaluate the property's direct oracle on the real observations."""
from __future__ import annotations

import os
import random
import re
import signal

from common import Result, run_driver, ToolFailure
import nodegen


class Obs:
    """Parsed observation: list of blocks (event text, lines)."""

    def __init__(self, lines: list[str]):
        self.blocks: list[tuple[str, list[str]]] = []
        for l in lines:
            if l.startswith("EV "):
                self.blocks.append((l[3:], []))
            elif self.blocks:
                self.blocks[-1][1].append(l)


def kv(line: str) -> dict:
    d = {}
    for tok in line.split(" ")[1:]:
        if "=" in tok:
            k, v = tok.split("=", 1)
            d[k] = v
        else:
            d.setdefault("_", []).append(tok)
    return d


def parse_cfg(line: str) -> dict:
    cfg = line.split("|")[0].strip()[5:].strip()
    out = {"peers": [], "apps": [], "realm": "realm.local", "host": "node.local", "cea": 4, "cer": 4, "dwa": 4, "idle": 30,
           "rq": 10240}
    for item in cfg.split(";"):
        if item.startswith("peer:"):
            f = item[5:].split(",")
            out["peers"].append({"name": f[0], "realm": out["realm"] if f[1] == "-" else f[1], "persistent": f[2] == "1", "always": f[3] == "1",
                                 "wait": int(f[4]), "addr": f[5] == "1", "default": f[6] == "1",
                                 "cea": None if f[7] == "-" else int(f[7]), "cer": None if f[8] == "-" else int(f[8]),
                                 "dwa": None if f[9] == "-" else int(f[9]), "idle": None if f[10] == "-" else int(f[10])})
        elif item.startswith("app:"):
            f = item[4:].split(",")
            out["apps"].append({"id": int(f[0]), "auth": f[1] == "1", "acct": f[2] == "1", "kind": f[3],
                                "max": int(f[4]), "peers": [int(x) for x in f[5].split("+")] if f[5] not in ("", "-") else [],
                                "realms": f[6].split("+") if f[6] not in ("", "-") else []})
        elif "=" in item:
            k, v = item.split("=")
            out[k] = int(v) if v.isdigit() else v
    return out


def parse_msg(d: str) -> dict:
    if d.startswith("X"):
        import gen
        raw = bytes.fromhex(d[1:])
        h = gen.rfc_parse_header(raw)
        keys = {}
        avps = gen.rfc_parse_avps(raw[20:])
        for c, v, f, data in avps:
            if v == 0 and c in (263, 264, 296, 283):
                keys[{263: "sid", 264: "oh", 296: "or", 283: "dr"}[c]] = data.decode("utf8", "replace")
            if v == 0 and c == 268:
                keys["rc"] = str(int.from_bytes(data, "big"))
        return {"cmd": h[3], "flags": h[2], "app": h[4], "hbh": h[5], "e2e": h[6], "keys": keys,
                "R": bool(h[2] & 0x80), "T": bool(h[2] & 0x10), "avps": [(c, v) for c, v, f, d in avps]}
    p = d.split(":")
    cmd = nodegen_cmd(p[0])
    m = {"cmd": cmd, "flags": int(p[1]), "app": int(p[2]), "hbh": int(p[3]), "e2e": int(p[4]), "keys": {}}
    if len(p) > 5 and p[5]:
        for item in p[5].split(","):
            k, v = item.split("=", 1)
            m["keys"][k] = v
    m["R"] = bool(m["flags"] & 0x80)
    m["T"] = bool(m["flags"] & 0x10)
    return m


def nodegen_cmd(s: str) -> int:
    return {"CE": 257, "DW": 280, "DP": 282, "CC": 272, "AC": 271, "UN": 999, "MO": 8388733}.get(s) or int(s)


def eager(line: str) -> str:
    """the same scenario under the schedule where writer and I/O loop run at once
    whenever a message is queued (see sim.Sim._make_eager)"""
    cfg, sep, rest = line.partition(" | ")
    return cfg + ";eager=1" + sep + rest


class _Timeout(BaseException):
    pass


def run_real(line: str, budget: float = 20.0) -> list[str]:
    import sim

    def on_alarm(signum, frame):
        raise _Timeout()
    old = signal.signal(signal.SIGALRM, on_alarm)
    signal.setitimer(signal.ITIMER_REAL, budget)
    try:
        return sim.run_scenario(line)
    except _Timeout:
        if budget < 100:
            signal.setitimer(signal.ITIMER_REAL, 0)
            signal.signal(signal.SIGALRM, old)
            return run_real(line, budget=6 * budget)      # once more with a much larger budget
        return ["HARNESS-TIMEOUT"]
    except Exception as e:  # noqa
        return [f"HARNESS-ERROR {type(e).__name__}: {e}"]
    finally:
        signal.setitimer(signal.ITIMER_REAL, 0)
        signal.signal(signal.SIGALRM, old)


PROJ = {
    "OUT": lambda l: l,
    "APP": lambda l: l,
    "CRASH": lambda l: l,
    "STOPPED": lambda l: l,
    "RAISE": lambda l: l,
}


def project(lines: list[str], keep: dict) -> list[str]:
    """keep: prefix -> None (whole line) or list of field names to keep."""
    out = []
    for l in lines:
        pre = l.split(" ", 1)[0]
        if pre in ("EV", "EVN"):
            out.append(l)
        elif pre in keep:
            f = keep[pre]
            if f is None:
                out.append(l)
            else:
                d = kv(l)
                head = l.split(" ")[1] if pre in ("CONN", "PEER", "APPS") else ""
                out.append(pre + " " + head + " " + " ".join(f"{k}={d.get(k)}" for k in f))
    # what is written to *different* sockets within one step has no order between the sockets: a run of consecutive OUT
    # lines is compared connection by connection (the order on each connection is kept)
    # the application ids a node announces come out of a Python set: their order means nothing
    def _ids(l):
        import re
        return re.sub(r"(auth|acct)=([0-9]+(?:\+[0-9]+)+)",
                      lambda m: m.group(1) + "=" + "+".join(sorted(m.group(2).split("+"), key=int)), l) if " cea=" in l else l
    out = [_ids(l) for l in out]
    canon, run_ = [], []
    for l in out + [""]:
        if l.startswith("OUT "):
            run_.append(l)
            continue
        if run_:
            canon += sorted(run_, key=lambda x: x.split(" ")[1])       # stable: per-connection order preserved
            run_ = []
        if l:
            canon.append(l)
    return canon


def run(res: Result, scenarios: list[str], keep: dict, oracle, label: str = ""):
    """Returns (oracle failures, divergences)."""
    # every scenario (every second one in the quick tier) also runs on the real node under the alternative schedule in
    # which writer and I/O loop run as soon as a message is queued; those runs are judged by the direct oracle only
    plain = [l for l in scenarios if ";eager=1" not in l.split("|")[0] and "during=" not in l.split("|")[0] and "midroute=" not in l.split("|")[0]
             and "midconnect=" not in l.split("|")[0] and "| busy " not in l and "| rxn " not in l]
    step = 1 if (res.tier != "quick" or os.environ.get("VERIF_EAGER_ALL") == "1") else 2
    have = set(scenarios)
    scenarios = scenarios + [e for e in (eager(l) for l in plain[::step]) if e not in have]
    reals = [run_real(l) for l in scenarios]
    # (the model knows one kind of immediate connect failure: the errno letter of `failU`, `failT`, … is the simulator's)
    models = [m.split(" ## ") for m in run_driver([re.sub(r"\bfail[A-Z]\b", "fail", l) for l in scenarios])]
    fails, div = [], []
    for line, r, m in zip(scenarios, reals, models):
        res.cases += 1
        if r and r[0].startswith("HARNESS-"):
            fails.append({"what": "the real node could not be driven through the scenario: " + r[0], "line": line[:2000]})
            continue
        try:
            fs = oracle(line, Obs(r)) or []
        except Exception as e:  # noqa
            raise ToolFailure(f"oracle crashed on {line[:300]}: {type(e).__name__}: {e}")
        for f in fs:
            f.setdefault("line", line[:3000])
            fails.append(f)
        if not fs:
            res.nontrivial.add(hash(line))
        pr, pm = project(r, keep), project(m, keep)
        pr = [re.sub(r"\bfail[A-Z]\b", "fail", x) if x.startswith("EV") else x for x in pr]    # (the echoed event text)
        if ";eager=1" in line.split("|")[0] or "during=" in line.split("|")[0] or "midroute=" in line.split("|")[0] \
                or "midconnect=" in line.split("|")[0] or "| busy " in line or "| rxn " in line:
            continue            # alternative schedule of the real node: direct oracle only (the model is sequential)
        if pr != pm:
            i = next((k for k, (a, b) in enumerate(zip(pr, pm)) if a != b), min(len(pr), len(pm)))
            div.append({"line": line[:3000], "real": " / ".join(pr[max(0, i - 3):i + 3])[:1500],
                        "model": " / ".join(pm[max(0, i - 3):i + 3])[:1500]})
    res.traces_validated += len(scenarios)
    if scenarios:
        res.sample({"scenario": scenarios[0][:400]})
        res.sample({"scenario": scenarios[len(scenarios) // 2][:400]})
    return fails, div


# ------------------------------------------------------------------ tracking
class Track:
    """Replays the scenario text next to the observations and keeps the facts
    the oracles need (per-connection state before each event, requests read…)."""

    def __init__(self, line: str, obs: Obs):
        self.cfg = parse_cfg(line)
        self.obs = obs
        self.state: dict[str, str] = {}       # conn -> state after last block
        self.live: dict[str, str] = {}
        self.ever_ready: set = set()
        self.conn_info: dict[str, dict] = {}

    def update(self, lines: list[str]):
        for l in lines:
            if l.startswith("CONN "):
                c = l.split(" ")[1]
                d = kv(l)
                self.state[c] = d["state"]
                self.live[c] = d["live"]
                self.conn_info[c] = d
                if d["state"] in ("READY", "WAITDWA"):
                    self.ever_ready.add(c)
