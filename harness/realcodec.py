"""Real-implementation side of the codec line protocol (same commands, same
canonical output text as lean/DV/Driver/Main.lean), plus literal helpers."""
from __future__ import annotations

import calendar
import datetime
import json
import os
import socket
import struct
import sys

os.environ["TZ"] = "UTC"
import time as _time
_time.tzset()

from common import REPO_SRC, LEAN  # noqa: E402

if REPO_SRC not in sys.path:
    sys.path.insert(0, REPO_SRC)

import logging  # noqa: E402
import common as _common  # noqa: E402
_common.quiet_debug_logging()

from diameter.message import Message, MessageHeader, DefinedMessage, UndefinedMessage  # noqa: E402
from diameter.message._base import UndefinedGroupedAvp  # noqa: E402
from diameter.message.avp import avp as A  # noqa: E402
from diameter.message.avp import Avp  # noqa: E402
from diameter.message.avp.generator import generate_avps_from_defs  # noqa: E402
from diameter.message.commands._attributes import assign_attr_from_defs  # noqa: E402
from diameter.message.avp import dictionary as D  # noqa: E402

TY_TAG = {"Avp": 0, "AvpAddress": 1, "AvpFloat32": 2, "AvpFloat64": 3,
          "AvpGrouped": 4, "AvpInteger32": 5, "AvpInteger64": 6,
          "AvpOctetString": 7, "AvpUnsigned32": 8, "AvpUnsigned64": 9,
          "AvpUtf8String": 10, "AvpTime": 11}
TAG_TY = {v: getattr(A, k) for k, v in TY_TAG.items()}
EXC_NAMES = {"ConversionError", "AvpDecodeError", "AvpEncodeError", "error", "ValueError",
             "UnicodeDecodeError", "TypeError", "OverflowError", "AttributeError"}

_side = None


def side() -> dict:
    """Sidecar written by the translator: names, class ids."""
    global _side
    if _side is None:
        _side = json.load(open(os.path.join(LEAN, "DV/Generated/tables.json")))
        _side["name_id"] = {n: i for i, n in enumerate(_side["names"])}
        import importlib
        _side["cls_by_id"] = {}
        _side["id_by_cls"] = {}
        for i, (mod, qn) in _side["class_paths"].items():
            try:
                c = importlib.import_module(mod)
                for part in qn.split("."):
                    c = getattr(c, part)
            except Exception:
                continue
            _side["cls_by_id"][int(i)] = c
            _side["id_by_cls"][c] = int(i)
    return _side


def exc(e: BaseException) -> str:
    n = type(e).__name__
    return "EXC " + (n if n in EXC_NAMES else f"Other")


def ty_of(avp) -> int:
    for k in type(avp).__mro__:
        if k.__name__ in TY_TAG and getattr(A, k.__name__, None) is k:
            return TY_TAG[k.__name__]
    return 0


def avpobj(a) -> str:
    return f"{a.code}.{a.vendor_id}.{a.flags}.{a.payload.hex()}"


def mk_avp(s: str):
    """Object with exactly this state, of the dictionary's class."""
    c, v, f, p = s.split(".")
    c, v, f = int(c), int(v), int(f)
    e = A.get_avp_dictionary_entry(c, v)
    t = e["type"] if e else Avp
    a = t(c, v, bytes.fromhex(p), f)
    a.flags = f
    if e:
        a.name = e["name"]
    return a


def epoch_to_dt(t: int) -> datetime.datetime:
    return datetime.datetime(1970, 1, 1) + datetime.timedelta(seconds=t)


def dt_to_epoch(d: datetime.datetime) -> int:
    return calendar.timegm(d.timetuple())


def show_value(v, ty: int) -> str:
    if ty in (5, 6, 8, 9):
        return f"i:{v}"
    if ty == 2:
        return "f32:" + struct.pack("!f", v).hex()
    if ty == 3:
        return "f64:" + struct.pack("!d", v).hex()
    if ty in (0, 7):
        return "b:" + v.hex()
    if ty == 10:
        return "s:" + v.encode("utf8").hex()
    if ty == 11:
        return f"t:{dt_to_epoch(v)}"
    if ty == 1:
        fam, text = v
        if fam == 1:
            raw = socket.inet_pton(socket.AF_INET, text)
        elif fam == 2:
            raw = socket.inet_pton(socket.AF_INET6, text)
        elif fam == 8:
            raw = text.encode("utf8")
        else:
            raw = bytes.fromhex(text)
        return f"a:{fam}:{raw.hex()}"
    if ty == 4:
        return "g:[" + ",".join(avpobj(x) for x in v) + "]"
    raise RuntimeError("bad type")


def split_top(s: str, sep: str) -> list[str]:
    out, depth, cur = [], 0, []
    for ch in s:
        if ch in "[{":
            depth += 1
        elif ch in "]}":
            depth -= 1
        if ch == sep and depth == 0:
            out.append("".join(cur))
            cur = []
        else:
            cur.append(ch)
    out.append("".join(cur))
    return out


def parse_setarg(s: str):
    """Literal → the Python value handed to the setter."""
    if s.startswith("A:"):
        _, t, p4, p6 = s.split(":")
        return bytes.fromhex(t).decode("utf8")
    if s == "Xf":
        return 1e40
    if s == "Xs":
        return "\ud800"
    tag, rest = s.split(":", 1)
    if tag == "i":
        return int(rest)
    if tag == "f32":
        return struct.unpack("!f", bytes.fromhex(rest))[0]
    if tag == "f64":
        return struct.unpack("!d", bytes.fromhex(rest))[0]
    if tag == "b":
        return bytes.fromhex(rest)
    if tag == "s":
        return bytes.fromhex(rest).decode("utf8")
    if tag == "t":
        return epoch_to_dt(int(rest))
    if tag == "a":
        fam, raw = rest.split(":")
        fam = int(fam)
        raw = bytes.fromhex(raw)
        if fam == 1:
            return socket.inet_ntop(socket.AF_INET, raw)
        if fam == 2:
            return socket.inet_ntop(socket.AF_INET6, raw)
        return raw.decode("utf8")
    if tag == "g":
        inner = rest[1:-1]
        return [mk_avp(x) for x in inner.split(",")] if inner else []
    raise RuntimeError("bad literal " + s)


def addr_literal(text: str) -> str:
    """Setter literal for an address text, with the inet_pton oracle results."""
    def pt(fam):
        try:
            return socket.inet_pton(fam, text).hex()
        except Exception:
            return "-"
    return f"A:{text.encode('utf8').hex()}:{pt(socket.AF_INET)}:{pt(socket.AF_INET6)}"


# ---------------------------------------------------------------- typed objects
def parse_fval(s: str, pos: int = 0):
    """Parse the FVal grammar into a small AST: ('U',), ('S', lit), ('L', [lits]),
    ('M', [fvals]), ('C', cls), ('O', cls, [(attr, fval)], [avpobj])."""
    ch = s[pos]
    pos += 1
    if ch == "U":
        return ("U",), pos

    def read_lit(p):
        depth = 0
        q = p
        while q < len(s):
            c = s[q]
            if c in "[{":
                depth += 1
            elif c in "]}":
                if depth == 0:
                    break
                depth -= 1
            elif c in ",;" and depth == 0:
                break
            q += 1
        return s[p:q], q
    if ch == "S":
        lit, pos = read_lit(pos)
        return ("S", lit), pos
    if ch == "L":
        assert s[pos] == "["
        pos += 1
        items = []
        if s[pos] == "]":
            return ("L", []), pos + 1
        while True:
            lit, pos = read_lit(pos)
            items.append(lit)
            if s[pos] == ",":
                pos += 1
            else:
                assert s[pos] == "]"
                return ("L", items), pos + 1
    if ch == "M":
        assert s[pos] == "["
        pos += 1
        items = []
        if s[pos] == "]":
            return ("M", []), pos + 1
        while True:
            v, pos = parse_fval(s, pos)
            items.append(v)
            if s[pos] == ",":
                pos += 1
            else:
                assert s[pos] == "]"
                return ("M", items), pos + 1
    if ch == "C":
        q = pos
        while q < len(s) and s[q].isdigit():
            q += 1
        return ("C", int(s[pos:q])), q
    if ch == "O":
        q = pos
        while s[q].isdigit():
            q += 1
        cls = int(s[pos:q])
        assert s[q] == "{"
        pos = q + 1
        fields = []
        if s[pos] == "}":
            pos += 1
        else:
            while True:
                q = pos
                while s[q].isdigit():
                    q += 1
                k = int(s[pos:q])
                assert s[q] == "="
                v, pos = parse_fval(s, q + 1)
                fields.append((k, v))
                if s[pos] == ";":
                    pos += 1
                else:
                    assert s[pos] == "}"
                    pos += 1
                    break
        assert s[pos] == "["
        q = s.index("]", pos)
        inner = s[pos + 1:q]
        extra = inner.split(",") if inner else []
        return ("O", cls, fields, extra), q + 1
    raise RuntimeError("bad fval at %d: %s" % (pos, s[:80]))


def build_obj(ast):
    sd = side()
    k = ast[0]
    if k == "U":
        return None
    if k == "S":
        return parse_setarg(ast[1])
    if k == "L":
        return [parse_setarg(x) for x in ast[1]]
    if k == "M":
        return [build_obj(x) for x in ast[1]]
    if k == "C":
        return sd["cls_by_id"][ast[1]]
    if k == "O":
        cls = sd["cls_by_id"][ast[1]]
        o = cls()
        for attr, v in ast[2]:
            setattr(o, sd["names"][attr], build_obj(v))
        extra = [mk_avp(x) for x in ast[3]]
        if issubclass(cls, Message):
            for a in extra:
                o.append_avp(a)
        elif extra or hasattr(o, "additional_avps"):
            o.additional_avps = extra
        return o
    raise RuntimeError


class _Unencodable:
    """a value no AVP type can encode"""
    def __repr__(self):
        return "<unencodable>"


def deepest_scalar(ast):
    """path (attribute names / list indexes) to the most deeply nested set scalar attribute of an object literal"""
    sd = side()
    best = None
    if ast[0] == "O":
        for attr, v in ast[2]:
            name = sd["names"][attr]
            if v[0] == "S":
                cand = [name]
            elif v[0] == "O":
                sub = deepest_scalar(v)
                cand = [name] + sub if sub else None
            elif v[0] == "M" and v[1]:
                sub = deepest_scalar(v[1][0])
                cand = [name, 0] + sub if sub else None
            else:
                cand = None
            if cand and (best is None or len(cand) > len(best)):
                best = cand
    return best


def build_obj_two_phase(ast, deferred: list):
    """Like build_obj, but only part of the content is there at first; the
    thunks in `deferred` complete it in place (setattr on the same objects,
    list.extend on the same lists)."""
    sd = side()
    k = ast[0]
    if k == "L" and len(ast[1]) >= 2:
        items = [parse_setarg(x) for x in ast[1]]
        lst = items[:1]
        deferred.append(lambda: lst.extend(items[1:]))
        return lst
    if k == "M" and len(ast[1]) >= 1:
        objs = [build_obj_two_phase(x, deferred) for x in ast[1]]
        lst = objs[:1]
        if len(objs) >= 2:
            deferred.append(lambda: lst.extend(objs[1:]))
        return lst
    if k == "O":
        cls = sd["cls_by_id"][ast[1]]
        o = cls()
        attrs = list(ast[2])
        half = (len(attrs) + 1) // 2
        for attr, v in attrs[:half]:
            setattr(o, sd["names"][attr], build_obj_two_phase(v, deferred))
        for attr, v in attrs[half:]:
            deferred.append(lambda attr=attr, v=v: setattr(o, sd["names"][attr], build_obj(v)))
        extra = [mk_avp(x) for x in ast[3]]
        if issubclass(cls, Message):
            if extra:
                o.avps = list(extra)          # (the other documented way of attaching undeclared AVPs: the `avps` setter)
        elif extra or hasattr(o, "additional_avps"):
            o.additional_avps = extra
        return o
    return build_obj(ast)


def show_obj(o, cls_id: int) -> str:
    """Attributes of a typed message / container as an FVal literal (fields in
    first-assignment order of the real object's __dict__)."""
    sd = side()
    cls = sd["cls_by_id"][cls_id]
    defs = {d.attr_name: d for d in cls.avp_def}
    fields = []
    for k, v in vars(o).items():
        if k not in defs:
            continue
        d = defs[k]
        if v is None:
            continue            # canonical form: unset attributes are omitted
        fields.append((k, show_attr(v, d)))
    extra = []
    if hasattr(o, "additional_avps") and not isinstance(o, Message):
        extra = o.additional_avps
    elif hasattr(o, "_additional_avps"):
        extra = o._additional_avps
    fs = ";".join(f"{i}={v}" for i, v in sorted((sd['name_id'][k], v) for k, v in fields))
    return f"O{cls_id}{{{fs}}}[" + ",".join(avpobj(a) for a in extra) + "]"


def show_attr(v, d) -> str:
    sd = side()
    e = A.get_avp_dictionary_entry(d.avp_code, d.vendor_id)
    ty = ty_of(e["type"](0)) if e else 0

    def one(x):
        if d.type_class is not None and hasattr(x, "avp_def") and not isinstance(x, type):
            return show_obj(x, sd["id_by_cls"][type(x)])
        if isinstance(x, type):
            return f"C{sd['id_by_cls'][x]}"
        return "S" + show_value(x, ty)
    if isinstance(v, list):
        if d.type_class is not None:
            return "M[" + ",".join(one(x) for x in v) + "]"
        return "L[" + ",".join(show_value(x, ty) for x in v if x is not None) + "]"
    return one(v)


def show_undef(o) -> str:
    parts = []
    for k, v in vars(o).items():
        if k in ("header", "_avps", "_Message__find_cache"):
            continue
        parts.append(f"{k}={show_uval(v)}")
    return "G{" + ";".join(parts) + "}"


def show_uval(v) -> str:
    if isinstance(v, list):
        return "N[" + ",".join(show_uval(x) for x in v) + "]"
    if isinstance(v, UndefinedGroupedAvp):
        return show_undef(v)
    # scalar Python value: find its type from the value itself
    if isinstance(v, bool):
        return f"Vi:{int(v)}"
    if isinstance(v, int):
        return f"Vi:{v}"
    if isinstance(v, float):
        return "Vf:" + struct.pack("!d", v).hex()
    if isinstance(v, bytes):
        return "Vb:" + v.hex()
    if isinstance(v, str):
        return "Vs:" + v.encode("utf8").hex()
    if isinstance(v, datetime.datetime):
        return f"Vt:{dt_to_epoch(v)}"
    if isinstance(v, tuple):
        return "V" + show_value(v, 1)
    return "V?"


def show_header(h) -> str:
    return (f"{h.version} {h.length} {h.command_flags} {h.command_code} "
            f"{h.application_id} {h.hop_by_hop_identifier} {h.end_to_end_identifier}")


class _Timeout(BaseException):
    pass


def _on_alarm(signum, frame):
    raise _Timeout()


_timeouts = 0


def real(line: str, budget_s: float = 3.0) -> str:
    """Run one protocol line on the real code under a wall-clock guard, so a
    non-terminating decoder shows up as `EXC Timeout` instead of hanging the check."""
    import signal
    global _timeouts
    if _timeouts >= 5:
        return "EXC Timeout(skipped)"      # enough evidence; do not spend minutes on a looping decoder
    # a call that does not return within the budget is tried once more with a
    # five times larger one (a loaded machine must not look like a looping decoder)
    for budget in (budget_s, 5 * budget_s):
        old = signal.signal(signal.SIGALRM, _on_alarm)
        signal.setitimer(signal.ITIMER_REAL, budget)
        try:
            return _real(line)
        except _Timeout:
            pass
        finally:
            signal.setitimer(signal.ITIMER_REAL, 0)
            signal.signal(signal.SIGALRM, old)
    _timeouts += 1
    return "EXC Timeout"


def _real(line: str) -> str:
    sd = side()
    toks = line.split(" ")
    cmd = toks[0]
    try:
        if cmd == "AVPENC":
            return mk_avp(toks[1]).as_bytes().hex()
        if cmd == "AVPDEC":
            data = bytes.fromhex(toks[1])
            # position: decode through an Unpacker to observe it
            from diameter.message.packer import Unpacker, ConversionError
            u = Unpacker(data)
            try:
                a = Avp.from_unpacker(u)
            except ConversionError:
                # what Avp.from_bytes raises
                try:
                    Avp.from_bytes(data)
                except Exception as e:  # noqa
                    return exc(e)
                return "EXC ?"
            e = A.get_avp_dictionary_entry(a.code, a.vendor_id)
            nm = sd["name_id"].get(a.name, "?") if e else "-"
            return f"{avpobj(a)} {u.get_position()} {ty_of(a)} {nm}"
        if cmd == "AVPVAL":
            ty = int(toks[1])
            a = TAG_TY[ty](0, 0, bytes.fromhex(toks[2]))

            def read():
                try:
                    return show_value(a.value, ty)
                except Exception as e:  # noqa
                    return exc(e)
            first = read()
            str(a) if first == "EXC AvpDecodeError" else None
            second = read()
            if first != second:
                return f"UNSTABLE first={first} second={second}"
            if first.startswith("EXC"):
                return first
            return first
        if cmd == "AVPSET":
            ty = int(toks[1])
            a = TAG_TY[ty](0, 0)
            a.value = parse_setarg(toks[2])
            return a.payload.hex()
        if cmd == "AVPNEW":
            code, vendor = int(toks[1]), int(toks[2])
            val = None if toks[3] == "-" else parse_setarg(toks[3])
            m = {0: None, 1: True, 2: False}[int(toks[4])]
            p = {0: None, 1: True, 2: False}[int(toks[5])]
            return avpobj(Avp.new(code, vendor, value=val, is_mandatory=m, is_private=p))
        if cmd == "AVPSTR":
            a = Avp.from_bytes(bytes.fromhex(toks[1]))
            str(a)
            return "OK"
        if cmd == "MSGDEC":
            data = bytes.fromhex(toks[1])
            m = Message.from_bytes(data, plain_msg=(toks[2] == "1"))
            cid = sd["id_by_cls"][type(m)]
            hd = show_header(m.header)
            if isinstance(m, UndefinedMessage):
                body = "UNDEF [" + ",".join(avpobj(a) for a in m._avps) + "] " + show_undef(m)
            elif isinstance(m, DefinedMessage) and not m._avps and str(cid) in sd["class_defs"] and type(m).avp_def and _assigns(type(m)):
                body = "OBJ " + show_obj(m, cid)
            else:
                body = "AVPS [" + ",".join(avpobj(a) for a in m._avps) + "]"
            try:
                re_ = m.as_bytes().hex()
            except Exception as e:  # noqa
                re_ = exc(e)
            return f"{cid} {hd} {body} RE {re_}"
        if cmd == "MSGENC":
            def hdr():
                return MessageHeader(int(toks[1]), 0, int(toks[2]), int(toks[3]), int(toks[4]),
                                     int(toks[5]), int(toks[6]))
            inner = toks[7][1:-1]
            avps = [mk_avp(x) for x in inner.split(",")] if inner else []
            one = Message(hdr(), avps).as_bytes().hex()
            # the same message built in two steps with an encoding in between
            # (a message object is encoded, extended, encoded again)
            avps2 = [mk_avp(x) for x in inner.split(",")] if inner else []
            k = len(avps2) // 2
            m2 = Message(hdr(), avps2[:k])
            m2.as_bytes()
            for a in avps2[k:]:
                m2.append_avp(a)
            two = m2.as_bytes().hex()
            if two != one:
                return f"STALE after-extension={two} fresh={one}"
            return one
        if cmd == "FIND":
            m = Message.from_bytes(bytes.fromhex(toks[1]), plain_msg=True)
            if type(m) is not Message and isinstance(m, DefinedMessage):
                pass
            outs = []
            all_avps = m._avps
            for p in toks[2:]:
                path = [tuple(int(x) for x in el.split("_")) for el in p.split("/")]
                try:
                    r = m.find_avps(*path, alt_list=all_avps)
                    outs.append("[" + ",".join(avpobj(a) for a in r) + "]")
                except Exception as e:  # noqa
                    outs.append(exc(e))
            return ";".join(outs)
        if cmd == "TYPED":
            ast, _ = parse_fval(toks[1])

            def gen(o):
                avps = o.avps if isinstance(o, Message) else generate_avps_from_defs(o)
                return "[" + ",".join(avpobj(a) for a in avps) + "]"
            one = gen(build_obj(ast))
            # the same object filled in two steps with a generation in between:
            # attributes set later, lists extended in place, nested containers completed in place
            deferred: list = []
            o2 = build_obj_two_phase(ast, deferred)
            try:
                gen(o2)
                if isinstance(o2, Message):
                    o2.as_bytes()
            except Exception:  # noqa
                pass
            for f in deferred:
                f()
            two = gen(o2)
            if two != one:
                return f"STALE after-completion={two} fresh={one}"
            # the same values after an encode that failed: the deepest scalar attribute holds something that cannot be
            # encoded, generation raises, the value is put right, generation is repeated on the same objects
            path = deepest_scalar(ast)
            if path:
                o3 = build_obj(ast)
                holder = o3
                for step in path[:-1]:
                    holder = holder[step] if isinstance(step, int) else getattr(holder, step)
                good = getattr(holder, path[-1])
                setattr(holder, path[-1], _Unencodable())
                raised = False
                try:
                    gen(o3)
                    if isinstance(o3, Message):
                        o3.as_bytes()
                except Exception:  # noqa
                    raised = True
                setattr(holder, path[-1], good)
                if raised:
                    three = gen(o3)
                    if three != one:
                        return f"STALE after-failed-encode={three} fresh={one}"
                    o4 = build_obj(ast)            # … and unrelated fresh objects afterwards
                    four = gen(o4)
                    if four != one:
                        return f"STALE fresh-after-failed-encode={four} fresh={one}"
            return one
        if cmd == "ASSIGN":
            cid = int(toks[1])
            cls = sd["cls_by_id"][cid]
            inner = toks[2][1:-1]
            avps = [mk_avp(x) for x in inner.split(",")] if inner else []
            if issubclass(cls, Message):
                o = cls(MessageHeader(), avps)
            else:
                o = cls()
                assign_attr_from_defs(o, avps)
            return show_obj(o, cid)
        if cmd == "ANSWER":
            cid = int(toks[1])
            cls = sd["cls_by_id"][cid]
            h = MessageHeader(int(toks[2]), 0, int(toks[3]), int(toks[4]), int(toks[5]),
                              int(toks[6]), int(toks[7]))
            req = cls(h)
            # a request as Message.from_bytes delivers it: the class is
            # constructed, then the received flag octet is put back
            req.header.command_flags = int(toks[3])
            before = show_header(req.header)
            ans = req.to_answer()
            after = show_header(req.header)
            if before != after:
                return "REQUEST-MODIFIED"
            return f"{sd['id_by_cls'][type(ans)]} {show_header(ans.header)} REQ {before}"
    except Exception as e:  # noqa
        return exc(e)
    return "BAD"


_assign_cache: dict = {}


def _assigns(cls) -> bool:
    if cls not in _assign_cache:
        try:
            probe = Avp.new(264, value=b"x")
            _assign_cache[cls] = (cls(MessageHeader(), [probe])._avps == [])
        except Exception:
            _assign_cache[cls] = False
    return _assign_cache[cls]
