#!/venv/bin/python
"""Translator: regenerate lean/DV/Generated/*.lean from the *imported* diameter
package of /repo's working tree (what Python actually built), on every run.

Everything here is read by introspection or by running the real constructors;
nothing is copied from source text except the lock/access skeletons (Skeleton,
from bytecode).  Files are only rewritten when their content changes, so lake
re-elaborates (and the kernel re-checks the table theorems) exactly when the
source changed something the model depends on.
"""
from __future__ import annotations

import dataclasses
import dis
import inspect
import json
import os
import sys
import hashlib

os.environ.setdefault("TZ", "UTC")
REPO_SRC = os.environ.get("DV_REPO_SRC", "/repo/src")
sys.path.insert(0, REPO_SRC)

HERE = os.path.dirname(os.path.abspath(__file__))
GEN = os.path.join(os.path.dirname(HERE), "lean", "DV", "Generated")

TY_TAG = {"Avp": 0, "AvpAddress": 1, "AvpFloat32": 2, "AvpFloat64": 3,
          "AvpGrouped": 4, "AvpInteger32": 5, "AvpInteger64": 6,
          "AvpOctetString": 7, "AvpUnsigned32": 8, "AvpUnsigned64": 9,
          "AvpUtf8String": 10, "AvpTime": 11}

CHUNK = 48


def lean_str(s: str) -> str:
    out = []
    for ch in s:
        if ch == '"':
            out.append('\\"')
        elif ch == "\\":
            out.append("\\\\")
        elif ch == "\n":
            out.append("\\n")
        elif 32 <= ord(ch) < 127:
            out.append(ch)
        else:
            out.append("\\u{%x}" % ord(ch))
    return '"' + "".join(out) + '"'


def chunked_list(name: str, ty: str, items: list[str], chunk: int = CHUNK) -> str:
    """Emit `def name : List ty` as right-nested `::` chunks."""
    lines = []
    n = (len(items) + chunk - 1) // chunk
    if n == 0:
        return f"def {name} : List {ty} := []\n"
    for k in range(n - 1, -1, -1):
        part = items[k * chunk:(k + 1) * chunk]
        tail = f"{name}_c{k + 1}" if k + 1 < n else "[]"
        body = " ::\n  ".join(part)
        lines.append(f"def {name}_c{k} : List {ty} :=\n  {body} ::\n  {tail}\n")
    lines.append(f"def {name} : List {ty} := {name}_c0\n")
    return "\n".join(lines)


def write_if_changed(path: str, content: str) -> bool:
    os.makedirs(os.path.dirname(path), exist_ok=True)
    try:
        with open(path) as f:
            if f.read() == content:
                return False
    except FileNotFoundError:
        pass
    tmp = path + ".tmp%d" % os.getpid()
    with open(tmp, "w") as f:
        f.write(content)
    os.replace(tmp, path)
    return True


class Names:
    def __init__(self):
        self.ids: dict[str, int] = {}
        self.list: list[str] = []

    def id(self, s: str) -> int:
        if s not in self.ids:
            self.ids[s] = len(self.list)
            self.list.append(s)
        return self.ids[s]


def opt(x) -> str:
    return "none" if x is None else f"(some {x})"


def b(x) -> str:
    return "true" if x else "false"


def mand_tag(m) -> int:
    return 0 if m is None else (1 if m else 2)


def all_subclasses(c):
    out = []
    for s in c.__subclasses__():
        if s not in out:
            out.append(s)
        for t in all_subclasses(s):
            if t not in out:
                out.append(t)
    return out


def extract() -> dict:
    import diameter.message as dm
    from diameter.message import (Message, MessageHeader, DefinedMessage,
                                  UndefinedMessage)
    from diameter.message.avp import avp as avp_mod
    from diameter.message.avp import dictionary as dict_mod
    from diameter.message.avp import grouped as grouped_mod
    from diameter.message.avp.generator import AvpGenDef
    from diameter.message.commands import all_commands
    from diameter.message import constants
    from diameter.node import _helpers, peer as peer_mod, node as node_mod

    names = Names()
    notes: list[str] = []
    info: dict = {}

    # ---------------------------------------------------------------- dictionary
    entries = []
    skipped_vendor0 = 0

    def ty_of(t) -> int:
        # most specific known base class
        for k in t.__mro__:
            if k.__name__ in TY_TAG and getattr(avp_mod, k.__name__, None) is k:
                return TY_TAG[k.__name__]
        notes.append(f"dictionary type {t!r} is not an Avp type")
        return 0

    for code, e in dict_mod.AVP_DICTIONARY.items():
        entries.append((code, 0, ty_of(e["type"]), mand_tag(e.get("mandatory")),
                        names.id(e["name"])))
    for vendor, vd in dict_mod.AVP_VENDOR_DICTIONARY.items():
        for code, e in vd.items():
            if vendor == 0:
                skipped_vendor0 += 1
                continue
            entries.append((code, vendor, ty_of(e["type"]),
                            mand_tag(e.get("mandatory")), names.id(e["name"])))
    info["dict_entries"] = len(entries)
    info["dict_skipped_vendor0"] = skipped_vendor0
    info["enumerated_is_integer32"] = avp_mod.AvpEnumerated is avp_mod.AvpInteger32

    # ---------------------------------------------------------------- classes
    msg_classes = [Message] + all_subclasses(Message)
    cls_id: dict[type, int] = {}

    def cid(c) -> int:
        if c not in cls_id:
            cls_id[c] = len(cls_id)
        return cls_id[c]

    # ids: classes that get a ClassDef (DefinedMessage subclasses, then
    # containers) are numbered densely from 0 in emission order, so that the
    # class table is indexed by id; the remaining message classes follow.
    container_classes = []
    seen = set()

    def visit_container(c):
        if c in seen or not inspect.isclass(c):
            return
        seen.add(c)
        if not issubclass(c, Message):
            container_classes.append(c)
        for d in getattr(c, "avp_def", ()) or ():
            if isinstance(d, AvpGenDef) and d.type_class is not None:
                visit_container(d.type_class)

    for n, c in vars(grouped_mod).items():
        if inspect.isclass(c) and hasattr(c, "avp_def") and c.__module__ == grouped_mod.__name__:
            visit_container(c)
    for c in msg_classes:
        if hasattr(c, "avp_def"):
            visit_container(c)

    for c in msg_classes:
        if issubclass(c, DefinedMessage):
            cid(c)
    for c in container_classes:
        cid(c)
    for c in msg_classes:
        cid(c)

    class_defs = []
    n_defs = 0
    ann_lists = []          # (class id, [attr name ids annotated as list[...]])

    def annotated_list_attrs(c):
        out = []
        anns = {}
        for k in reversed(c.__mro__):
            anns.update(getattr(k, "__annotations__", {}) or {})
        for d in getattr(c, "avp_def", ()) or ():
            a = anns.get(getattr(d, "attr_name", None))
            if a is None:
                continue
            txt = a if isinstance(a, str) else getattr(a, "__name__", "") + str(a)
            if str(txt).replace("typing.", "").lstrip().lower().startswith("list"):
                out.append(names.id(d.attr_name))
        return out

    def class_def(c, is_msg: bool):
        nonlocal n_defs
        try:
            o = c()
        except Exception as e:  # noqa
            notes.append(f"class {c.__name__} cannot be constructed: {type(e).__name__}")
            o = None
        defs = []
        int_defaults = []
        odd = []
        for d in getattr(c, "avp_def", ()) or ():
            if not isinstance(d, AvpGenDef):
                notes.append(f"{c.__name__}.avp_def contains a non-AvpGenDef")
                continue
            n_defs += 1
            cur = None
            has = False
            if o is not None:
                has = d.attr_name in vars(o) or hasattr(type(o), d.attr_name)
                try:
                    cur = getattr(o, d.attr_name)
                except Exception:
                    cur = None
            is_list = isinstance(cur, list)
            if cur is None or is_list:
                if is_list and cur:
                    odd.append(names.id(d.attr_name))
            elif isinstance(cur, int) and not isinstance(cur, bool) and cur >= 0:
                int_defaults.append((names.id(d.attr_name), cur))
            else:
                odd.append(names.id(d.attr_name))
            tclass = None
            if d.type_class is not None:
                if inspect.isclass(d.type_class):
                    tclass = cid(d.type_class)
                else:
                    notes.append(f"{c.__name__}.{d.attr_name}: type_class is not a class")
            defs.append((names.id(d.attr_name), d.avp_code, d.vendor_id,
                         bool(d.is_required), mand_tag(d.is_mandatory), tclass,
                         is_list))
        additional = 0
        if o is not None:
            if hasattr(o, "additional_avps"):
                additional = 1
            elif hasattr(o, "_additional_avps"):
                additional = 2
        assigns = False
        if is_msg:
            try:
                probe = avp_mod.Avp.new(constants.AVP_ORIGIN_HOST, value=b"x")
                o2 = c(MessageHeader(), [probe])
                assigns = (o2._avps == [])
            except Exception as e:  # noqa
                notes.append(f"{c.__name__}(header, avps) raised {type(e).__name__}")
        return (cid(c), names.id(c.__name__), is_msg, defs, additional,
                int_defaults, odd, assigns)

    for c in msg_classes:
        if issubclass(c, DefinedMessage):
            class_defs.append(class_def(c, True))
            ann_lists.append((cid(c), annotated_list_attrs(c)))
    for c in container_classes:
        class_defs.append(class_def(c, False))
        ann_lists.append((cid(c), annotated_list_attrs(c)))
    info["class_defs"] = len(class_defs)
    info["attr_defs"] = n_defs

    # ------------------------------------------------------- message behaviour
    mclasses = []
    for c in msg_classes:
        outs = []
        code_forced = True
        ok = True
        for probe_code in (7, 8388000):
            for f in range(256):
                h = MessageHeader(version=1, command_flags=f, command_code=probe_code,
                                  application_id=3, hop_by_hop_identifier=5,
                                  end_to_end_identifier=9)
                try:
                    o = c(h)
                except Exception as e:  # noqa
                    notes.append(f"{c.__name__}(header) raised {type(e).__name__}")
                    ok = False
                    break
                if probe_code == 7:
                    outs.append(o.header.command_flags)
                elif o.header.command_flags != outs[f]:
                    notes.append(f"{c.__name__}: flags depend on command code")
                if o.header.command_code != c.code:
                    code_forced = False
                if (o.header.version, o.header.application_id,
                        o.header.hop_by_hop_identifier,
                        o.header.end_to_end_identifier) != (1, 3, 5, 9):
                    notes.append(f"{c.__name__}: constructor changes ids")
            if not ok:
                break
        and_mask = or_mask = 0
        if ok:
            for bit_i in range(8):
                bit = 1 << bit_i
                v0 = outs[0] & bit
                v1 = outs[bit] & bit
                if v0 and v1:
                    or_mask |= bit
                    and_mask |= bit
                elif (not v0) and v1:
                    and_mask |= bit
                elif v0 and not v1:
                    notes.append(f"{c.__name__}: flag bit {bit_i} inverted")
            if not all(outs[f] == ((f & and_mask) | or_mask) for f in range(256)):
                notes.append(f"{c.__name__}: flag effect is not a mask pair")
        else:
            and_mask = 0xff
        if not code_forced:
            # either never forced, or forced to something else: probe says which
            pass
        # type_factory over all 256 flag octets
        fac = {}
        for f in range(256):
            h = MessageHeader(command_flags=f, command_code=c.code)
            try:
                t = c.type_factory(h)
            except Exception as e:  # noqa
                notes.append(f"{c.__name__}.type_factory raised {type(e).__name__}")
                t = None
            fac[f] = t
        req_t = fac[0x80]
        ans_t = fac[0x00]
        for f in range(256):
            want = req_t if f & 0x80 else ans_t
            if fac[f] is not want:
                notes.append(f"{c.__name__}.type_factory depends on more than the R bit")
                break
        # to_answer class
        ans_cls = None
        if ok:
            try:
                a = c(MessageHeader(command_flags=0x80, command_code=c.code)).to_answer()
                ans_cls = a.__class__
            except Exception as e:  # noqa
                notes.append(f"{c.__name__}.to_answer raised {type(e).__name__}")
        kind = 0 if issubclass(c, DefinedMessage) else (1 if issubclass(c, UndefinedMessage) else 2)
        ans_name = None
        if c.__name__.endswith("Request"):
            cand = c.__name__[:-7] + "Answer"
            ans_name = names.id(cand)
        mclasses.append((cid(c), names.id(c.__name__), c.code, and_mask, or_mask,
                         code_forced, kind,
                         None if req_t is None else cid(req_t),
                         None if ans_t is None else cid(ans_t),
                         cid(ans_cls) if ans_cls is not None else cid(Message),
                         ans_name,
                         [cid(k) for k in c.__mro__ if k is not object]))
    info["message_classes"] = len(mclasses)

    registry = [(code, cid(c)) for code, c in all_commands.items()]
    info["registered_commands"] = len(registry)
    special = {"Message": cid(Message), "DefinedMessage": cid(DefinedMessage),
               "UndefinedMessage": cid(UndefinedMessage)}

    # --------------------------------------------------------------- constants
    T = avp_mod.AvpTime
    consts = {
        "time_since1900": T.seconds_since_1900,
        "time_overflowTs": T.overflow_timestamp,
        "time_cutoff": T.overflow_detection_cutoff,
        "avpFlagV": avp_mod.Avp.avp_flag_vendor,
        "avpFlagM": avp_mod.Avp.avp_flag_mandatory,
        "avpFlagP": avp_mod.Avp.avp_flag_private,
        "hdrFlagR": MessageHeader.command_flag_request_bit,
        "hdrFlagP": MessageHeader.command_flag_proxiable_bit,
        "hdrFlagE": MessageHeader.command_flag_error_bit,
        "hdrFlagT": MessageHeader.command_flag_retransmit_bit,
        "seqMin": _helpers.SequenceGenerator.MIN_SEQUENCE,
        "seqMax": _helpers.SequenceGenerator.MAX_SEQUENCE,
        "sessMin": _helpers.SessionGenerator.MIN_SEQUENCE,
        "sessMax": _helpers.SessionGenerator.MAX_SEQUENCE,
        "cmdCE": constants.CMD_CAPABILITIES_EXCHANGE,
        "cmdDW": constants.CMD_DEVICE_WATCHDOG,
        "cmdDP": constants.CMD_DISCONNECT_PEER,
        "rcSuccess": constants.E_RESULT_CODE_DIAMETER_SUCCESS,
        "rcUnknownPeer": constants.E_RESULT_CODE_DIAMETER_UNKNOWN_PEER,
        "rcNoCommonApp": constants.E_RESULT_CODE_DIAMETER_NO_COMMON_APPLICATION,
        "rcElectionLost": constants.E_RESULT_CODE_DIAMETER_ELECTION_LOST,
        "rcMissingAvp": constants.E_RESULT_CODE_DIAMETER_MISSING_AVP,
        "rcRealmNotServed": constants.E_RESULT_CODE_DIAMETER_REALM_NOT_SERVED,
        "rcAppUnsupported": constants.E_RESULT_CODE_DIAMETER_APPLICATION_UNSUPPORTED,
        "rcUnableToComply": constants.E_RESULT_CODE_DIAMETER_UNABLE_TO_COMPLY,
        "rcTooBusy": constants.E_RESULT_CODE_DIAMETER_TOO_BUSY,
        "appRelay": constants.APP_RELAY,
        "causeRebooting": constants.E_DISCONNECT_CAUSE_REBOOTING,
        "stConnecting": peer_mod.PEER_CONNECTING,
        "stConnected": peer_mod.PEER_CONNECTED,
        "stReady": peer_mod.PEER_READY,
        "stReadyWaitingDwa": peer_mod.PEER_READY_WAITING_DWA,
        "stDisconnecting": peer_mod.PEER_DISCONNECTING,
        "stClosing": peer_mod.PEER_CLOSING,
        "stClosed": peer_mod.PEER_CLOSED,
        "drDpr": peer_mod.DISCONNECT_REASON_DPR,
        "drNodeShutdown": peer_mod.DISCONNECT_REASON_NODE_SHUTDOWN,
        "drCleanDisconnect": peer_mod.DISCONNECT_REASON_CLEAN_DISCONNECT,
        "drSocketFail": peer_mod.DISCONNECT_REASON_SOCKET_FAIL,
        "drGoneAway": peer_mod.DISCONNECT_REASON_GONE_AWAY,
        "drFailedConnect": peer_mod.DISCONNECT_REASON_FAILED_CONNECT,
        "drFailedConnectCe": peer_mod.DISCONNECT_REASON_FAILED_CONNECT_CE,
        "drCerRejected": peer_mod.DISCONNECT_REASON_CER_REJECTED,
        "drDwaTimeout": peer_mod.DISCONNECT_REASON_DWA_TIMEOUT,
        "drUnknown": peer_mod.DISCONNECT_REASON_UNKNOWN,
    }
    ready_states = tuple(peer_mod.PEER_READY_STATES)
    info["ready_states"] = list(ready_states)

    # names that, normalised the way UndefinedMessage does, collide with an
    # existing member of a fresh UndefinedMessage / UndefinedGroupedAvp
    from diameter.message._base import UndefinedGroupedAvp
    um = UndefinedMessage()
    ug = UndefinedGroupedAvp()
    clashes = []
    for (code, vendor, ty, mand, nid) in entries:
        an = names.list[nid].replace("-", "_").lower()
        if hasattr(um, an) or hasattr(ug, an):
            clashes.append(nid)
    if hasattr(um, "unknown"):
        clashes.append(names.id("Unknown"))
    info["undef_name_clashes"] = len(clashes)

    class_paths = {str(i): [c.__module__, c.__qualname__] for c, i in cls_id.items()}
    return dict(names=names, notes=notes, info=info, entries=entries, clashes=clashes, class_paths=class_paths,
                class_defs=class_defs, ann_lists=ann_lists, mclasses=mclasses, registry=registry,
                special=special, consts=consts, ready_states=ready_states)


HEADER = "-- GENERATED by harness/extract.py from /repo's working tree. Do not edit.\n"


def emit(x: dict) -> dict:
    changed = {}
    names: Names = x["names"]

    # Names (driver only; never used in kernel-checked statements)
    s = HEADER + "namespace DV.Gen\n\n"
    s += chunked_list("nameList", "String", [lean_str(n) for n in names.list], 64)
    s += "\ndef names : Array String := nameList.toArray\n\nend DV.Gen\n"
    changed["Names"] = write_if_changed(os.path.join(GEN, "Names.lean"), s)

    # Dictionary
    s = HEADER + "import DV.Model.Tables\nnamespace DV.Gen\nopen DV\n\n"
    ents = sorted(x["entries"], key=lambda e: (e[1], e[0]))
    defs = []
    counter = [0]

    def tree(lo: int, hi: int) -> str:
        """Balanced BST over ents[lo:hi]; subtrees above 12 nodes get a def."""
        if lo >= hi:
            return ".leaf"
        mid = (lo + hi) // 2
        l = tree(lo, mid)
        r = tree(mid + 1, hi)
        e = "⟨%d, %d, %d, %d, %d⟩" % ents[mid]
        expr = f"(.node {l} {e} {r})"
        if hi - lo > 12:
            nm = f"dt_{counter[0]}"
            counter[0] += 1
            defs.append(f"def {nm} : DTree := {expr}\n")
            return nm
        return expr

    root = tree(0, len(ents))
    s += "".join(defs)
    s += f"\ndef dict : DTree := {root}\n"
    s += f"def dictSize : Nat := {len(ents)}\n"
    s += "\nend DV.Gen\n"
    changed["Dict"] = write_if_changed(os.path.join(GEN, "Dict.lean"), s)

    # Classes
    s = HEADER + "import DV.Model.Tables\nnamespace DV.Gen\nopen DV\n\n"
    items = []
    for (i, nm, is_msg, defs, additional, int_defaults, odd, assigns) in x["class_defs"]:
        ds = ", ".join("⟨%d, %d, %d, %s, %d, %s, %s⟩" % (a, c, v, b(r), m, opt(t), b(l))
                       for (a, c, v, r, m, t, l) in defs)
        idf = ", ".join("(%d, %d)" % p for p in int_defaults)
        od = ", ".join(str(o) for o in odd)
        items.append("{ id := %d, name := %d, isMessage := %s, defs := [%s], additional := %d, intDefaults := [%s], oddDefaults := [%s], assigns := %s }"
                     % (i, nm, b(is_msg), ds, additional, idf, od, b(assigns)))
    s += chunked_list("classes", "ClassDef", items, 8)
    s += "\n/-- per class: the attributes whose annotation is `list[...]` (they must be lists after construction) -/\n"
    s += chunked_list("annotatedLists", "(Nat × List Nat)",
                      ["(%d, [%s])" % (ci, ", ".join(map(str, l))) for ci, l in x["ann_lists"]], 64)
    s += "\nend DV.Gen\n"
    changed["Classes"] = write_if_changed(os.path.join(GEN, "Classes.lean"), s)

    # Message classes + registry
    s = HEADER + "import DV.Model.Tables\nnamespace DV.Gen\nopen DV\n\n"
    items = []
    for (i, nm, code, am, om, fc, kind, fr, fa, ac, an, mro) in x["mclasses"]:
        items.append("{ id := %d, name := %d, code := %d, andMask := %d, orMask := %d, forcesCode := %s, kind := %d, factoryReq := %s, factoryAns := %s, answerClass := %d, answerName := %s, mro := [%s] }"
                     % (i, nm, code, am, om, b(fc), kind, opt(fr), opt(fa), ac, opt(an),
                        ", ".join(map(str, mro))))
    s += chunked_list("msgClasses", "MsgClass", items, 16)
    s += "\n" + chunked_list("registry", "(Nat × Nat)",
                             ["(%d, %d)" % p for p in x["registry"]], 64)
    for k, v in x["special"].items():
        s += f"\ndef cls{k} : Nat := {v}\n"
    s += "\ndef undefNameClashes : List Nat := [%s]\n" % ", ".join(map(str, x["clashes"]))
    s += "\nend DV.Gen\n"
    changed["Commands"] = write_if_changed(os.path.join(GEN, "Commands.lean"), s)

    # Constants
    s = HEADER + "namespace DV.Gen\n\n"
    for k, v in x["consts"].items():
        s += f"def {k} : Nat := {v}\n"
    s += "def readyStates : List Nat := [%s]\n" % ", ".join(map(str, x["ready_states"]))
    s += "\nend DV.Gen\n"
    changed["Constants"] = write_if_changed(os.path.join(GEN, "Constants.lean"), s)
    side = {
        "names": names.list,
        "class_defs": {str(c[0]): names.list[c[1]] for c in x["class_defs"]},
        "msg_classes": {str(c[0]): names.list[c[1]] for c in x["mclasses"]},
        "class_paths": x["class_paths"],
        "consts": x["consts"],
    }
    write_if_changed(os.path.join(GEN, "tables.json"), json.dumps(side))
    return changed


def main():
    x = extract()
    changed = emit(x)
    import extract_threads
    extract_threads.GEN = GEN          # (the module may have been found through a resolved symlink: write where this run writes)
    tx = extract_threads.extract()
    changed["Threads"] = extract_threads.emit(tx, write_if_changed)
    x["info"]["thread_skeleton_notes"] = tx["notes"]
    import extract_config
    extract_config.GEN = GEN
    cx = extract_config.extract()
    changed["ConfigSrc"] = extract_config.emit(cx, write_if_changed)
    x["info"]["config_switches_in_source"] = {k: ("unrecognised" if v is None else v) for k, v in cx.items()}
    x["info"]["seq_program"] = [d["op"] + ("!" if d["rel"] else "") for d in tx["seq"]]
    x["info"]["sess_program"] = [d["op"] + ("!" if d["rel"] else "") for d in tx["sess"]]
    out = {"info": x["info"], "notes": x["notes"], "changed": changed,
           "names": len(x["names"].list)}
    json.dump(out, sys.stdout, indent=1)
    print()


if __name__ == "__main__":
    main()
