"""C09 — application answers go only to the requesting connection, at most once."""
from __future__ import annotations

import random

from common import Result
import nodegen
import nodecheck
from nodecheck import Obs, kv, parse_msg, parse_cfg

PROP = "C09"
MODULES = ["DV.Properties.C09", "DV.Properties.C09Race", "DV.Properties.C09Tables", "DV.Properties.C09Hist", "DV.Properties.ConfigTie", "DV.Properties.C09One"]
KEEP = {"OUT": None, "APP": None, "CONN": ["state", "live"]}


def oracle(line: str, obs: Obs):
    fails = []
    delivered = []          # per app: list of (conn, hbh, e2e) in delivery order
    answered = set()
    state, live = {}, {}
    last_rx_conn = {}
    inflight = {}           # conn -> set of unanswered hbh delivered to apps
    ident = {}              # conn -> host identity
    dpr_seen = set()
    # what the recorded finding (first match by bare hop-by-hop id, in the order in which connections first had a
    # request delivered) predicts: only failures that are exactly this are the known finding
    k2_order: list = []
    k2_pending: dict = {}
    # events run from inside a request handler (`during=`) are listed inside the block of the delivering event: unfold them
    blocks = []
    for ev, lines in obs.blocks:
        cur_ev, cur = ev, []
        for l in lines:
            if l.startswith("EVN ") and ev.split(" ")[0] in ("rx", "rxm", "rxcut"):
                blocks.append((cur_ev, cur))
                cur_ev, cur = l[4:], []
            else:
                cur.append(l)
        blocks.append((cur_ev, cur))
    for ev, lines in blocks:
        t = ev.split(" ")
        if t[0] == "rx":
            c = f"c{t[1]}"
            for d in t[2:]:
                m = parse_msg(d)
                if m["R"]:
                    last_rx_conn[(m["cmd"], m["hbh"], m["e2e"])] = c
                if m["R"] and m["cmd"] == 282 and state.get(c) in ("READY", "WAITDWA"):
                    dpr_seen.add(c)        # the peer is leaving: the connection accepts nothing more, whatever arrives later
        for l in lines:
            if l.startswith("APP ") and " REQ " in l:
                d = kv(l)
                a = l.split(" ")[1]
                key = (int(d["cmd"]), int(d["hbh"]), int(d["e2e"]))
                delivered.append((a, last_rx_conn.get(key), key))
                cc0 = last_rx_conn.get(key)
                if cc0 is not None:
                    if cc0 not in k2_order:
                        k2_order.append(cc0)
                    k2_pending.setdefault(cc0, set()).add(key[1])
        if t[0] == "ans":
            a = f"a{t[1]}"
            mine = [x for x in delivered if x[0] == a]
            idx = int(t[2])
            if idx < len(mine):
                _, c, key = mine[idx]
                # the same hop-by-hop id has been in flight on another connection: bookkeeping of both is entangled
                others_same_hbh = [x for x in delivered if x[2][1] == key[1] and x[1] != c]
                outs = [(l.split(" ")[1], kv(l)) for l in lines if l.startswith("OUT ")]
                ans_outs = [(cc, d) for cc, d in outs if d["R"] == "0" and int(d["hbh"]) == key[1] and int(d["e2e"]) == key[2]]
                raised = any(l.startswith(f"APP {a} RAISE NotRoutable") for l in lines)
                ok_state = state.get(c) in ("READY", "WAITDWA") and live.get(c) == "1" and c not in dpr_seen
                first = (c, key) not in answered
                k2_conn = next((x for x in k2_order if key[1] in k2_pending.get(x, ())), None)
                if k2_conn is not None:
                    k2_pending[k2_conn].discard(key[1])
                k2_sends = k2_conn is not None and state.get(k2_conn) in ("READY", "WAITDWA") and live.get(k2_conn) == "1"
                k2_outs = [k2_conn] if k2_sends else []
                as_k2 = [cc for cc, _ in ans_outs] == k2_outs and (raised == (not k2_sends))
                sig = "equal_hbh_on_two_connections" if (others_same_hbh and as_k2) else None
                # the peer has two handshaken connections and the answer went out on the other one
                if not sig and len(ans_outs) == 1 and ans_outs[0][0] != c and ident.get(c) and ident.get(ans_outs[0][0]) == ident.get(c):
                    sig = "answer_on_peers_other_connection"
                if ok_state and first:
                    if [cc for cc, _ in ans_outs] != [c]:
                        fails.append({"what": "application answer not transmitted on (only) the connection the request arrived on",
                                      "event": ev, "real": str([(cc, d["hbh"]) for cc, d in ans_outs]) + (" RAISE" if raised else ""),
                                      "expected": c, "sig": sig})
                else:
                    if ans_outs or not raised:
                        fails.append({"what": "answer for a request whose connection is gone / not ready / already answered was "
                                              "transmitted instead of failing with the not-routable error",
                                      "event": ev, "real": str([(cc, d["hbh"]) for cc, d in ans_outs]),
                                      "state": f"{c} {state.get(c)} live={live.get(c)} first={first}", "sig": sig})
                if ans_outs and ok_state and first and [cc for cc, _ in ans_outs] == [c]:
                    answered.add((c, key))
                elif first and ans_outs:
                    answered.add((c, key))
        for l in lines:
            if l.startswith("CONN "):
                c = l.split(" ")[1]
                d = kv(l)
                state[c] = d["state"]
                live[c] = d["live"]
                if d["live"] == "0" and c in k2_order:
                    k2_order.remove(c)
                    k2_pending.pop(c, None)
                if d.get("ident", "-") != "-":
                    ident[c] = d["ident"]
    return fails


def scenarios(rng: random.Random, tier: str):
    out = []
    h = [800]

    def n():
        h[0] += 1
        return h[0]
    cfg = ("NODE host=node.local;realm=realm.local;idle=9999;peer:peer1.x,realm.local,0,0,30,1,0,-,-,-,-;"
           "peer:peer2.x,realm.local,0,0,30,1,0,-,-,-,-;peer:peer3.x,realm.local,0,0,30,1,0,-,-,-,-;app:4,1,0,b,0,0+1+2,-")
    names = ["peer1.x", "peer2.x", "peer3.x"]
    # the requester sends a DPR while a DWR of ours is unanswered, its DWA arrives afterwards, then the application answers
    idle_cfg = cfg.replace("idle=9999", "idle=3;dwa=50")
    for order in (("dpr", "dwa"), ("dwa", "dpr")):
        evs = ["start", "acc", "rx 0 " + nodegen.cer("peer1.x", "4", n(), n()), "rx 0 " + nodegen.ccr(n(), n(), "peer1.x"), "adv 4"]
        for o in order:
            evs.append("rx 0 " + (nodegen.dpr(n(), n(), "peer1.x") if o == "dpr" else nodegen.dwa(1001, 7, "peer1.x")))
        evs.append("ans 0 0 2001")
        out.append(idle_cfg + " | " + " | ".join(evs))
    # equal hop-by-hop ids pending on two connections, the requester that comes first leaves (DPR / loss) before the
    # application answers its request: not routable, nothing to the other peer; the other peer's own answer still goes out
    for leave in ("rx 0 " + nodegen.dpr(n(), n(), "peer1.x"), "eof 0", "rerr 0 hard"):
        for order in ((0, 1), (1, 0)):
            pre2 = cfg + " | start | " + " | ".join(f"acc | rx {i} " + nodegen.cer(names[i], "4", n(), n()) for i in range(2))
            hb = n()
            evs = [f"rx {order[0]} " + nodegen.ccr(hb, n(), names[order[0]]), f"rx {order[1]} " + nodegen.ccr(hb, n(), names[order[1]]),
                   leave, "ans 0 %d 2001" % order.index(0), "ans 0 %d 2001" % order.index(1)]
            out.append(pre2 + " | " + " | ".join(evs))
    # the application answers from inside its request handler (and a second time afterwards)
    for extra in ("", " | ans 0 0 2001"):
        during = cfg.replace("NODE ", "NODE during=ans_0_0_2001;", 1)
        out.append(during + " | start | acc | rx 0 " + nodegen.cer("peer1.x", "4", n(), n()) + f" | rx 0 {nodegen.ccr(n(), n(), 'peer1.x')}{extra} | tick")
    # nothing is lost: the requester is merely silent for longer than the idle timeout while the application is still busy
    # (the node's watchdog request goes out, the connection awaits the DWA), then the answer is submitted
    slow_cfg = cfg.replace("idle=9999", "idle=3;dwa=50")
    for late in ("", " | rx 0 " + nodegen.dwa(2001, 268435464)):
        out.append(slow_cfg + " | start | acc | rx 0 " + nodegen.cer("peer1.x", "4", n(), n()) + f" | rx 0 {nodegen.ccr(n(), n(), 'peer1.x')}" +
                   f" | adv 4{late} | ans 0 0 2001 | ans 0 0 2001")
    # the requester opens a second connection and completes its capabilities exchange there while the first one, on which its
    # request is pending, stays open: the answer goes out on the first
    for extra in ("", " | rx 1 " + nodegen.dwr(n(), n(), "peer1.x")):
        out.append(cfg + " | start | acc | rx 0 " + nodegen.cer("peer1.x", "4", n(), n()) + f" | rx 0 {nodegen.ccr(n(), n(), 'peer1.x')}" +
                   " | acc | rx 1 " + nodegen.cer("peer1.x", "4", n(), n()) + f"{extra} | ans 0 0 2001 | ans 0 0 2001")
    # the node sends a request of its own (watchdog, application request) on the connection, numbered like the peer's
    # pending request: the two number spaces have nothing to do with each other
    idle_cfg = cfg.replace("idle=9999", "idle=5;dwa=30")
    for own in ("adv 6 | rx 0 " + nodegen.dwa(7001, 268435464), "req 0 " + nodegen.ccr(0, 0, "node.local") + " 1"):
        out.append((idle_cfg if own.startswith("adv") else cfg) + " | start | acc | rx 0 " + nodegen.cer("peer1.x", "4", n(), n()) +
                   f" | sethbh 0 7000 | rx 0 {nodegen.ccr(7001, n(), 'peer1.x')} | {own} | ans 0 0 2001")
    # identifiers at the edges of their range are the peer's choice: the answer goes out all the same
    pre0 = cfg + " | start | acc | rx 0 " + nodegen.cer("peer1.x", "4", n(), n())
    for hb, ee in ((0, n()), (n(), 0), (0, 0), (4294967295, 4294967295), (1, 1)):
        out.append(pre0 + f" | rx 0 {nodegen.ccr(hb, ee, 'peer1.x')} | ans 0 0 2001 | ans 0 0 2001")
    # requests of a command without typed class (with and without Session-Id): answered, answered again, answered after the
    # requester has gone / sent a DPR - the failing submissions fail with the not-routable error like any other
    for sid in ("sid=s;9,", ""):
        def un():
            return f"UN:128:4:{n()}:{n()}:{sid}oh=peer1.x,or=realm.local,dr=realm.local"
        out.append(pre0 + f" | rx 0 {un()} | ans 0 0 2001 | ans 0 0 2001")
        out.append(pre0 + f" | rx 0 {un()} | eof 0 | ans 0 0 2001")
        out.append(pre0 + f" | rx 0 {un()} | rx 0 {nodegen.dpr(n(), n(), 'peer1.x')} | ans 0 0 2001")
        out.append(pre0 + f" | rx 0 {un()} | rx 0 {nodegen.ccr(n(), n(), 'peer1.x')} | ans 0 1 2001 | ans 0 0 2001 | ans 0 1 2001")
    # a peer with two established connections (overlapping reconnect): requests pending on both, the DPR arrives on one of
    # them; the answer for the request on that one is not routable, the other connection still gets its answer
    for dpr_on in (0, 1):
        pre2 = (cfg + " | start | acc | rx 0 " + nodegen.cer("peer1.x", "4", n(), n()) + " | acc | rx 1 " +
                nodegen.cer("peer1.x", "4", n(), n()))
        evs = ["rx 0 " + nodegen.ccr(n(), n(), "peer1.x"), "rx 1 " + nodegen.ccr(n(), n(), "peer1.x"),
               f"rx {dpr_on} " + nodegen.dpr(n(), n(), "peer1.x")]
        for order in (("ans 0 0 2001", "ans 0 1 2001"), ("ans 0 1 2001", "ans 0 0 2001")):
            out.append(pre2 + " | " + " | ".join(evs + list(order)))
    for rep in range(120 if tier == "quick" else 2500):
        npeers = rng.randrange(1, 4)
        pre = cfg + " | start | " + " | ".join(f"acc | rx {i} " + nodegen.cer(names[i], "4", n(), n()) for i in range(npeers))
        evs = []
        nreq = 0
        same_hbh = rng.random() < 0.25
        used_same = set()
        for _ in range(rng.randrange(1, 5)):
            c = rng.randrange(npeers)
            # equal ids only on *different* connections (ids are unique per connection)
            hb = 4242 if (same_hbh and c not in used_same) else n()
            used_same.add(c)
            evs.append(f"rx {c} " + nodegen.ccr(hb, n(), names[c]))
            nreq += 1
        order = list(range(nreq))
        rng.shuffle(order)
        faults = [f"eof {rng.randrange(npeers)}", f"rerr {rng.randrange(npeers)} hard",
                  f"rx {rng.randrange(npeers)} " + nodegen.dpr(n(), n(), rng.choice(names)), None, None, None]
        for k in order:
            f = rng.choice(faults)
            if f:
                evs.append(f)
            evs.append(f"ans 0 {k} 2001")
            if rng.random() < 0.2:
                evs.append(f"ans 0 {k} 2001")          # second answer for the same request
        # a peer with two handshaken connections: requests arrive on the extra one, both stay up
        if rng.random() < 0.15:
            extra = npeers
            evs.insert(0, f"acc | rx {extra} " + nodegen.cer(names[0], "4", n(), n()) + f" | rx {extra} " + nodegen.ccr(n(), n(), names[0]))
            evs.append(f"ans 0 0 2001")
            out.append(pre + " | " + " | ".join(evs))
            continue
        # overlapping reconnect: the requester opens a second connection, then the first one is lost
        if rng.random() < 0.25:
            evs.insert(len(evs) // 2, f"acc | rx {npeers} " + nodegen.cer("peer1.x", "4", n(), n()) + " | eof 0")
        # reconnection of the requester before the answer
        elif rng.random() < 0.3:
            evs.insert(len(evs) // 2, f"eof 0 | acc | rx {npeers} " + nodegen.cer("peer1.x", "4", n(), n()))
        out.append(pre + " | " + " | ".join(evs))
    return out


# ------------------------------------------------------ racing submissions
def race(res: Result, tier: str, fails: list, div: list):
    """2..3 threads submit an answer for the same pending request: the real `route_answer`
    (current source, stepped line by line) under every interleaving with a bounded number
    of preemptions; at most one may get through.  The order of the shared-state steps
    (lookup test / removal line) of each run is replayed on the Lean model."""
    import linesched
    import sim as simmod
    import extract_threads
    from common import run_driver
    line = (nodegen.CONFIGS["basic"] + " | start | acc | rx 0 " + nodegen.cer("peer1.x", "4", 901, 902) + " | rx 0 " +
            nodegen.ccr(903, 904))
    parts = [p.strip() for p in line.split("|")]
    sm = simmod.Sim(parts[0][5:].strip())
    lines, reals = [], []
    total = 0
    try:
        for ev in parts[1:]:
            sm.event(ev)
        node, app = sm.node, sm.apps[0]
        req = [m for i, m in sm.app_requests if i == 0][0]
        conn = sm.conns[0]
        type_node = type(node)
        shape = extract_threads.route_answer_shape(type_node.route_answer)
        shared_lines = set(shape["lookup"]) | ({shape["removal"]} if shape["removal"] else set())
        step_fn = linesched.stepper(type_node.route_answer)
        table0 = {k: dict(v) for k, v in node._peer_waiting_answer.items()}
        ans = app.generate_answer(req, result_code=2001)

        class T(linesched.Thread):
            """records which shared-state lines it executed (a line has run when the next yield arrives)"""

            def __init__(self, k, log):
                self.k, self.log, self.at = k, log, None
                super().__init__([lambda: step_fn(node, ans)])

            def _advance_call(self):
                super()._advance_call()

            def step(self):
                before = self.at
                self.blocked_on = None
                try:
                    y = next(self.gen)
                    self.at = y[1] if y[0] == "line" else self.at
                except StopIteration as e:
                    self.results.append(("ok", "returned a connection"))
                    self.gen, self.done, self.at = None, True, None
                except Exception as e:  # noqa
                    self.results.append(("raised", type(e).__name__))
                    self.gen, self.done, self.at = None, True, None
                if before in shared_lines:
                    self.log.append(self.k)

        def make(nthr, log):
            node._peer_waiting_answer.clear()
            node._peer_waiting_answer.update({k: dict(v) for k, v in table0.items()})
            log.clear()
            ths = [T(k, log) for k in range(nthr)]
            for t in ths:       # the generator is primed at its first line (line numbers are relative to the def)
                t.at = None
            return ths

        for nthr, bound in ((2, 3), (3, 2)) if tier == "quick" else ((2, 4), (3, 3), (4, 2)):
            log: list = []

            def on_run(ths, trace, nthr=nthr, log=log):
                got = [t.results[0] if t.results else ("unfinished", None) for t in ths]
                through = sum(1 for g in got if g[0] == "ok")
                lines.append(f"RRACE {nthr} " + ",".join(map(str, log)))
                reals.append(f"sent={through}")
                if through > 1:
                    fails.append({"what": f"{through} concurrent submissions of an answer for one pending request all got through "
                                          "route_answer (each would be transmitted): the second one must fail",
                                  "kind": "race", "threads": nthr, "schedule": [c for c, _, _ in trace],
                                  "real": str(got), "line": "route_answer x%d, shared-step order %s" % (nthr, log)})
                    return True
                return False
            with linesched.deadline(120):
                runs, _ = linesched.explore(lambda: make(nthr, log), bound, on_run, max_runs=3000 if tier == "quick" else 60000)
            total += runs
            res.count(f"racing submissions {nthr} threads b{bound}", runs)
    finally:
        sm.close()
    outs = run_driver(lines)
    for l, r, m in zip(lines, reals, outs):
        res.cases += 1
        if m.split(" ")[0] != r:
            div.append({"line": l, "real": r, "model": m})
        else:
            res.nontrivial.add(l)
    res.traces_validated += len(lines)
    res.extra["race_schedules"] = total


def run(res: Result, tier: str, seed: int):
    rng = random.Random(seed * 1000003 + 9)
    res.rule = ("1..3 peers sending 1..4 concurrent requests (a quarter of the cases with equal hop-by-hop ids on different "
                "connections), answers submitted in every order, with connection loss / read error / DPR / reconnection of the "
                "requester injected between arrival and answer, second answers; oracle on the virtual socket logs; real vs model "
                "on OUT/APP")
    fails, div = nodecheck.run(res, scenarios(rng, tier), KEEP, oracle)
    rfails, rdiv = [], []
    race(res, tier, rfails, rdiv)
    res.rule += ("; 2..4 threads submitting an answer for one pending request: real route_answer stepped line by line under every "
                 "interleaving with up to 2..4 preemptions, at most one gets through; shared-step order replayed on the Lean model")
    return fails + rfails, div + rdiv


def signature(f: dict):
    return f.get("sig")


def search(res: Result, seed: int, broken) -> list:
    rng = random.Random(seed * 7919 + 73)
    r2 = Result(PROP, "thorough", seed)
    fails, _ = nodecheck.run(r2, scenarios(rng, "quick"), KEEP, oracle)
    race(r2, "thorough", fails, [])
    return fails
