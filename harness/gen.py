"""Type-directed value generators and the independent RFC 6733 wire oracle."""
from __future__ import annotations

import random
import socket
import struct

T_ADDR, T_F32, T_F64, T_GRP, T_I32, T_I64, T_OCT, T_U32, T_U64, T_UTF8, T_TIME = range(1, 12)

NTP_OFFSET = 2208988800          # seconds 1900-01-01 → 1970-01-01
TIME_MIN = -61505152             # 1968-01-20T03:14:08Z  (NTP 2^31)
TIME_MAX = 4233462143            # 2104-02-26T09:42:23Z  (NTP 2^32 + 2^31 - 1)
ERA1 = 2085978496                # 2036-02-07T06:28:16Z


def rand_bytes(rng: random.Random, n: int) -> bytes:
    return bytes(rng.getrandbits(8) for _ in range(n))


def lengths(rng: random.Random, k: int, maxlen: int = 4096) -> list[int]:
    base = [0, 1, 2, 3, 4, 5, 7, 8, 9, 15, 16, 17]
    out = base[:]
    while len(out) < k:
        out.append(rng.randrange(0, maxlen + 1))
    rng.shuffle(out)
    return out[:k]


UNI_SAMPLES = ["", "a", "hello", "ab\u0000", "\u0000", "\u0000\u0000x\u0000\u0000", " x \t\n ", "\ufeffbom", "käse", "€uro", "日本語", "\U0001F600", "a\u0000b", "߿ࠀ￿\U00010000\U0010ffff",
               # text that is not in a Unicode normal form (the wire carries the code points given, whatever form they are in)
               "e\u0301", "n\u0303o", "\u212b", "\u1100\u1161\u11a8", "\U0001d15e", "\u0041\u030a\u00c5\u212b", "\ufb01"]


def valid_values(ty: int, rng: random.Random, k: int, depth: int = 0, avp_pool=None) -> list[str]:
    """k value literals inside the type's domain (boundaries first)."""
    out: list[str] = []
    if ty == T_I32:
        out = [f"i:{x}" for x in (-2**31, -2**31 + 1, -1, 0, 1, 2**31 - 1)]
        while len(out) < k:
            out.append(f"i:{rng.randrange(-2**31, 2**31)}")
    elif ty == T_U32:
        out = [f"i:{x}" for x in (0, 1, 2**31 - 1, 2**31, 2**32 - 1)]
        while len(out) < k:
            out.append(f"i:{rng.randrange(0, 2**32)}")
    elif ty == T_I64:
        out = [f"i:{x}" for x in (-2**63, -2**63 + 1, -1, 0, 1, 2**63 - 1, 2**32)]
        while len(out) < k:
            out.append(f"i:{rng.randrange(-2**63, 2**63)}")
    elif ty == T_U64:
        out = [f"i:{x}" for x in (0, 1, 2**63, 2**64 - 1, 2**32)]
        while len(out) < k:
            out.append(f"i:{rng.randrange(0, 2**64)}")
    elif ty == T_F32:
        pats = [0, 0x80000000, 0x3f800000, 0x7f800000, 0xff800000, 0x7fc00000, 0xffc00001,
                0x00000001, 0x007fffff, 0x00800000, 0x7f7fffff, 0x3eaaaaab]
        out = ["f32:%08x" % p for p in pats]
        while len(out) < k:
            p = rng.getrandbits(32)
            if (p >> 23) & 0xff == 0xff and p & 0x7fffff and not p & 0x400000:
                p |= 0x400000       # signalling NaNs are quieted by the FPU: outside the model
            out.append("f32:%08x" % p)
    elif ty == T_F64:
        pats = [0, 1 << 63, 0x3ff0000000000000, 0x7ff0000000000000, 0xfff0000000000000,
                0x7ff8000000000000, 1, 0x000fffffffffffff, 0x7fefffffffffffff]
        out = ["f64:%016x" % p for p in pats]
        while len(out) < k:
            p = rng.getrandbits(64)
            if (p >> 52) & 0x7ff == 0x7ff and p & ((1 << 52) - 1) and not p & (1 << 51):
                p |= 1 << 51
            out.append("f64:%016x" % p)
    elif ty == T_OCT or ty == 0:
        for n in lengths(rng, k):
            out.append("b:" + rand_bytes(rng, n).hex())
    elif ty == T_UTF8:
        out = ["s:" + s.encode("utf8").hex() for s in UNI_SAMPLES]
        rng.shuffle(out)                 # (more samples than most callers ask for: every caller gets a different selection)
        while len(out) < k:
            n = rng.randrange(0, 40)
            s = "".join(chr(rng.choice([rng.randrange(0x20, 0x7f), rng.randrange(0xa0, 0x800),
                                        rng.randrange(0x800, 0xd800), rng.randrange(0xe000, 0x10000),
                                        rng.randrange(0x10000, 0x110000)])) for _ in range(n))
            out.append("s:" + s.encode("utf8").hex())
    elif ty == T_TIME:
        out = [f"t:{x}" for x in (TIME_MIN, TIME_MIN + 1, -1, 0, 1, 1700000000, ERA1 - 3601, ERA1 - 3600,
                                  ERA1 - 1, ERA1, ERA1 + 1, 2**31 - 1, 2**31, 2**32 - 2**27, TIME_MAX - 1, TIME_MAX)]
        while len(out) < k:
            out.append(f"t:{rng.randrange(TIME_MIN, TIME_MAX + 1)}")
    elif ty == T_ADDR:
        texts = ["10.0.0.1", "0.0.0.0", "255.255.255.255", "192.168.1.254", "::1", "::",
                 "2001:db8::1", "fe80::1:2:3:4", "::ffff:10.1.2.3", "41780009999", "1", "358401234567"]
        while len(texts) < k:
            c = rng.randrange(3)
            if c == 0:
                texts.append(socket.inet_ntop(socket.AF_INET, rand_bytes(rng, 4)))
            elif c == 1:
                texts.append(socket.inet_ntop(socket.AF_INET6, rand_bytes(rng, 16)))
            else:
                texts.append("".join(rng.choice("0123456789") for _ in range(rng.randrange(1, 16))))
        from realcodec import addr_literal
        out = [addr_literal(t) for t in texts]
    elif ty == T_GRP:
        pool = avp_pool or []
        out = ["g:[]"]
        while len(out) < k:
            n = rng.randrange(1, 5)
            out.append("g:[" + ",".join(rng.choice(pool) for _ in range(n)) + "]" if pool else "g:[]")
    rng_out = out[:max(k, 1)] if len(out) > k else out
    return rng_out


def invalid_values(ty: int) -> list[str]:
    """Literals outside the type's domain: must be rejected with an error."""
    if ty == T_I32:
        return [f"i:{-2**31 - 1}", f"i:{2**31}", f"i:{2**32 + 5}", f"i:{-2**40}"]
    if ty == T_U32:
        return ["i:-1", f"i:{2**32}", f"i:{2**40}"]
    if ty == T_I64:
        return [f"i:{-2**63 - 1}", f"i:{2**63}", f"i:{2**70}"]
    if ty == T_U64:
        return ["i:-1", f"i:{2**64}", f"i:{2**70}"]
    if ty == T_F32:
        return ["Xf"]
    if ty == T_UTF8:
        return ["Xs"]
    if ty == T_TIME:
        return [f"t:{TIME_MIN - 1}", f"t:{TIME_MAX + 1}", "t:-315619200", f"t:{TIME_MAX + 86400 * 365}",
                f"t:{-2208988800 - 1}"]
    if ty == T_ADDR:
        from realcodec import addr_literal
        return [addr_literal("1.2.3"), addr_literal("1.2.3.256"), addr_literal("12:34"),
                addr_literal("g::1"), addr_literal("1.2.3.4.5")]
    return []


# --------------------------------------------------------------- RFC oracle
def rfc_data(ty: int, lit: str) -> bytes:
    """RFC 6733 §4.2/§4.3 data layout for a value literal, written from the RFC,
    independently of the library and of the Lean model."""
    if lit.startswith("A:"):
        _, t, p4, p6 = lit.split(":")
        text = bytes.fromhex(t)
        if b"." in text or b":" in text:
            if p4 != "-":
                return b"\x00\x01" + bytes.fromhex(p4)
            return b"\x00\x02" + bytes.fromhex(p6)
        return b"\x00\x08" + text
    tag, rest = lit.split(":", 1)
    if tag == "i":
        v = int(rest)
        if ty == T_I32:
            return v.to_bytes(4, "big", signed=True)
        if ty == T_U32:
            return v.to_bytes(4, "big", signed=False)
        if ty == T_I64:
            return v.to_bytes(8, "big", signed=True)
        return v.to_bytes(8, "big", signed=False)
    if tag in ("f32", "f64", "b", "s"):
        return bytes.fromhex(rest)
    if tag == "t":
        ntp = int(rest) + NTP_OFFSET
        return (ntp % 2**32).to_bytes(4, "big")
    if tag == "a":
        fam, raw = rest.split(":")
        return int(fam).to_bytes(2, "big") + bytes.fromhex(raw)
    if tag == "g":
        inner = rest[1:-1]
        out = b""
        if inner:
            for a in inner.split(","):
                c, v, f, p = a.split(".")
                out += rfc_wire(int(c), int(v), int(f), bytes.fromhex(p))
        return out
    raise RuntimeError(lit)


def rfc_wire(code: int, vendor: int, flags: int, data: bytes) -> bytes:
    """RFC 6733 §4.1 AVP layout."""
    hdr = 12 if vendor else 8
    out = code.to_bytes(4, "big") + bytes([flags]) + (hdr + len(data)).to_bytes(3, "big")
    if vendor:
        out += vendor.to_bytes(4, "big")
    out += data
    out += b"\x00" * ((4 - len(data) % 4) % 4)
    return out


def canonical_value(ty: int, lit: str) -> str:
    """The getter's literal for a setter literal."""
    if lit.startswith("A:"):
        d = rfc_data(ty, lit)
        return f"a:{int.from_bytes(d[:2], 'big')}:{d[2:].hex()}"
    return lit


# ------------------------------------------------- independent wire parsers
class WireError(Exception):
    pass


def rfc_parse_avps(data: bytes) -> list[tuple[int, int, int, bytes]]:
    """Independent parser of a well-formed AVP sequence (RFC 6733 §4.1):
    [(code, vendor, flags, data)]; raises WireError on anything malformed."""
    out = []
    pos = 0
    while pos < len(data):
        if pos + 8 > len(data):
            raise WireError("short header")
        code = int.from_bytes(data[pos:pos + 4], "big")
        flags = data[pos + 4]
        length = int.from_bytes(data[pos + 5:pos + 8], "big")
        hdr = 8
        vendor = 0
        if flags & 0x80:
            if pos + 12 > len(data):
                raise WireError("short vendor")
            vendor = int.from_bytes(data[pos + 8:pos + 12], "big")
            hdr = 12
        if length < hdr:
            raise WireError("length below header")
        end = pos + length
        padded = pos + (length + 3) // 4 * 4
        if padded > len(data):
            raise WireError("overrun")
        out.append((code, vendor, flags, data[pos + hdr:end]))
        pos = padded
    return out


def rfc_header(ver, length, flags, code, app, hbh, e2e) -> bytes:
    return (bytes([ver]) + length.to_bytes(3, "big") + bytes([flags]) + code.to_bytes(3, "big")
            + app.to_bytes(4, "big") + hbh.to_bytes(4, "big") + e2e.to_bytes(4, "big"))


def rfc_parse_header(data: bytes):
    if len(data) < 20:
        raise WireError("short")
    return (data[0], int.from_bytes(data[1:4], "big"), data[4], int.from_bytes(data[5:8], "big"),
            int.from_bytes(data[8:12], "big"), int.from_bytes(data[12:16], "big"),
            int.from_bytes(data[16:20], "big"))


def avpobj_wire(s: str) -> bytes:
    c, v, f, p = s.split(".")
    return rfc_wire(int(c), int(v), int(f), bytes.fromhex(p))
