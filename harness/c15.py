"""C15 — outbound bytes = queued messages concatenated FIFO, intact, exactly once."""
from __future__ import annotations

import random

from common import Result, run_driver
import linesched
import wpath

PROP = "C15"
MODULES = ["DV.Properties.C15", "DV.Properties.C15Tables"]


class Shared:
    def __init__(self, per_thread, script):
        self.world = wpath.World()
        self.msgs = [m for t in per_thread for m in t]          # index = message id
        self.ids = []
        k = 0
        for t in per_thread:
            self.ids.append(list(range(k, k + len(t))))
            k += len(t)
        self.script = list(script)
        self.tokens: list[str] = []
        self.hard = False
        self.prefix_broken = None

    def next_outcome(self):
        return self.script.pop(0) if self.script else "all"


class QActor:
    def __init__(self, sh: Shared, j: int):
        self.sh, self.todo = sh, list(sh.ids[j])

    def enabled(self):
        return bool(self.todo)

    def step(self):
        i = self.todo.pop(0)
        self.sh.world.put(self.sh.msgs[i])
        self.sh.tokens.append(f"p{i}")


class WActor:
    def __init__(self, sh: Shared):
        self.sh = sh

    def enabled(self):
        return self.sh.world.w_enabled()

    def step(self):
        self.sh.world.step_w()
        self.sh.tokens.append("w")


class LActor:
    def __init__(self, sh: Shared):
        self.sh = sh

    def enabled(self):
        return self.sh.world.l_enabled()

    def step(self):
        w = self.sh.world
        o = "all"
        if w.lpos == "send":
            o = self.sh.next_outcome()
        w.step_l(o)
        if w.trace and w.trace[-1][1] == "send":
            if o in ("soft", "intr", "nobufs"):
                self.sh.tokens.append("ls")
            elif o == "hard":
                self.sh.tokens.append("lh")
                self.sh.hard = True
            else:
                self.sh.tokens.append("l" + str(10 ** 6 if o == "all" else o))
        else:
            self.sh.tokens.append("l0")
        if self.sh.prefix_broken is None and not w.expect.startswith(w.sent()):
            self.sh.prefix_broken = len(self.sh.tokens)


def make_actors(per_thread_factory, script, timeouts=0):
    sh = Shared(per_thread_factory(), script)
    sh.world.poll_timeouts = timeouts
    actors = [QActor(sh, j) for j in range(len(sh.ids))] + [WActor(sh), LActor(sh)]
    for a in actors:
        a.sh = sh
    return actors


def finish(actors):
    """drain, compare: returns (failure dict or None, model line, real summary)"""
    sh: Shared = actors[0].sh
    w = sh.world
    try:
        # everything still to be queued is queued, then every actor runs to completion
        for a in actors:
            while isinstance(a, QActor) and a.enabled():
                a.step()
        for _ in range(600):
            if actors[-2].enabled():
                actors[-2].step()
            elif actors[-1].enabled():
                actors[-1].step()
            else:
                break
        sent, expect = w.sent(), w.expect
        msgs_hex = ",".join((m.as_bytes().hex() if not isinstance(m, wpath.Broken) else "-") for m in sh.msgs)
        line = "WPATH " + msgs_hex + " | " + " ".join(sh.tokens)
        full_line = line
        if w.used_timeout:
            line = None            # (the writer's poll timing out is not an event of the model: such runs are judged by the oracle only)
        real = f"sent={sent.hex()} crashed={1 if w.crash else 0}"
        fail = None
        if w.crash:
            fail = {"what": "a worker died on the write path: " + w.crash, "kind": "crash"}
        elif getattr(w, "deadlock", None) and sent != expect:
            fail = {"what": "the write path stops for good: " + w.deadlock + " (queued messages never reach the transport)",
                    "kind": "deadlock", "sent": sent.hex()[:200], "expected": expect.hex()[:200]}
        elif sh.prefix_broken is not None or not expect.startswith(sent):
            fail = {"what": "bytes handed to the transport are not a prefix of the queued messages' encodings in queueing order",
                    "kind": "stream", "sent": sent.hex(), "expected": expect.hex(), "at_step": sh.prefix_broken}
        elif not sh.hard and sent != expect:
            fail = {"what": "after everything drained the transport has not received exactly the queued messages",
                    "kind": "incomplete", "sent": sent.hex(), "expected": expect.hex()}
        if fail:
            fail["line"] = full_line[:3000] + (" (with the writer's poll of the empty queue timing out)" if w.used_timeout else "")
        return fail, line, real
    finally:
        w.close()


SCRIPTS = [
    [], [1], [1, 1, 1], [5, "soft", 3], ["soft"], ["intr", 7], ["nobufs", "soft", 2], [30, 30, 30], [1, "soft", "all", 2],
    ["hard"], [4, "hard"],
]


def families(tier: str):
    small = lambda i: wpath.make_message(i)                     # noqa: E731
    big = lambda i: wpath.make_message(i, 60)                   # noqa: E731
    fams = [
        (lambda: [[small(0), small(1)]], 2),
        (lambda: [[small(0)], [big(1)]], 2),
        (lambda: [[small(0), wpath.Broken(), small(2)]], 2),
        (lambda: [[small(0), wpath.broken_typed(), small(2)]], 1),
        (lambda: [[small(0), wpath.broken_header(), small(2)]], 1),
        # application requests and watchdog messages mixed (queueing order is the only order)
        (lambda: [[wpath.make_other(0), wpath.make_other(1), small(2)]], 1),
        (lambda: [[wpath.make_other(0)], [small(1), wpath.make_other(2)]], 2),
        # the writer's poll of the empty queue times out while bytes are still waiting to be sent
        (lambda: [[small(0)], [small(1)]], 2, 1),
    ]
    if tier != "quick":
        fams += [
            (lambda: [[small(0), big(1)], [small(2)]], 3),
            (lambda: [[small(0)], [small(1)], [big(2)]], 3),
            (lambda: [[small(0), wpath.Broken()], [big(2), small(3)]], 2),
            (lambda: [[small(i) for i in range(6)]], 2),
        ]
    return fams


def drivable():
    """can the current writer / I/O loop be stepped by this harness at all?  One message, one schedule, within a minute --
    a writer that waits on a hand-off the harness does not stub (not the queue it replaces) would block every single run.
    Returns (why-not or None, failure of the probe run or None)."""
    try:
        with linesched.deadline(60):
            actors = make_actors(lambda: [[wpath.make_message(0)]], ["all"])
            f, _line, real = finish(actors)
        return None, f
    except BaseException as e:  # noqa
        return f"{type(e).__name__}: {e}", None


def node_level_patterns(res: Result, tier: str) -> list:
    """The whole real node (virtual sockets, worker threads run on demand: harness/sim.py), three answers queued on one
    connection, under every script of 1..3 send() outcomes over {1, 7, 40 bytes accepted, EAGAIN, EINTR, ENOBUFS} (each
    send() call takes the next outcome, whichever round of the I/O loop it is made in; afterwards everything is accepted):
    the bytes the socket accepted are those it accepts without a script."""
    import itertools
    import sim as simmod
    import nodegen
    cfg = ("host=node.local;realm=realm.local;idle=30;cea=4;dwa=4;peer:peer1.x,realm.local,0,0,30,1,0,-,-,-,-;"
           "app:4,1,0,b,0,0,-")
    pre = ["start", "acc", "rx 0 " + nodegen.cer("peer1.x", "4", 11, 12)]
    burst = "rx 0 " + " ".join(nodegen.dwr(31 + 2 * i, 32 + 2 * i) for i in range(3))

    def run_one(script):
        sm = simmod.Sim(cfg)
        try:
            for ev in pre:
                sm.event(ev)
            sk = sm.sock(0)
            base = len(sk.sent)
            if script:
                sm.event("wr 0 " + ",".join(script))
            sm.event(burst)
            for _ in range(6):
                sm.event("tick")
            return bytes(sk.sent[base:]), [l for l in sm.obs if l.startswith("CRASH")]
        finally:
            sm.close()
    want, _ = run_one([])
    alphabet = ["1", "7", "40", "soft", "softI", "softB"]
    fails = []
    n = 0
    for ln in (1, 2, 3):
        for script in itertools.product(alphabet, repeat=ln):
            if tier == "quick" and ln == 3 and hash(script) % 3:
                continue
            n += 1
            got, crashes = run_one(list(script))
            if got != want or crashes:
                fails.append({"what": "the bytes accepted by the socket are not the queued messages in order, each once (whole node, "
                                      "send() outcomes scripted per call)", "kind": "node-level",
                              "line": "NODE " + cfg + " | " + " | ".join(pre) + " | wr 0 " + ",".join(script) + " | " + burst + " | tick x6",
                              "script": list(script), "real": got.hex()[:400], "expected": want.hex()[:400]})
                if len(fails) >= 2:
                    break
        if fails:
            break
    res.count("node-level send() scripts", n)
    res.cases += n
    if fails:
        return fails
    # two connections with output pending in the same pass of the I/O loop, each with its own script of send() outcomes
    # (a partial write on one, a soft error on the other, in either socket order): what each socket accepted is what it
    # accepts without scripts
    cfg2 = ("host=node.local;realm=realm.local;idle=30;cea=4;dwa=4;peer:peer1.x,realm.local,0,0,30,1,0,-,-,-,-;"
            "peer:peer2.x,realm.local,0,0,30,1,0,-,-,-,-;app:4,1,0,b,0,0+1,-")
    pre2 = ["start", "acc", "acc", "rx 0 " + nodegen.cer("peer1.x", "4", 11, 12), "rx 1 " + nodegen.cer("peer2.x", "4", 13, 14)]
    bursts = ["rx %d " % k + " ".join(nodegen.dwr(41 + 10 * k + 2 * i, 42 + 10 * k + 2 * i, "peer%d.x" % (k + 1)) for i in range(3))
              for k in (0, 1)]

    def run_two(scripts, order):
        sm = simmod.Sim(cfg2)
        try:
            for ev in pre2:
                sm.event(ev)
            for _ in range(3):
                sm.event("tick")
            sks = [sm.sock(0), sm.sock(1)]
            base = [len(sk.sent) for sk in sks]
            for k in (0, 1):
                if scripts[k]:
                    sm.event(f"wr {k} " + ",".join(scripts[k]))
            # (the sockets take nothing until both connections have output pending: both are writable in one and the same pass)
            for k in (0, 1):
                sm.event(f"block {k} 1")
            for k in order:
                sm.event(bursts[k])
            for sk in sks:                    # (both at once: `block k 0` would flush one connection before the other)
                sk.writable = True
            for _ in range(8):
                sm.event("tick")
            return [bytes(sk.sent[b:]) for sk, b in zip(sks, base)], [l for l in sm.obs if l.startswith("CRASH")]
        finally:
            sm.close()
    want2, _ = run_two([[], []], (0, 1))
    alpha2 = [[], ["7"], ["40"], ["soft"], ["softB"], ["1", "soft"], ["soft", "7"], ["7", "softI", "40"]]
    n2 = 0
    for a, b in itertools.product(alpha2, repeat=2):
        if not a and not b:
            continue
        for order in ((0, 1), (1, 0)):
            n2 += 1
            got, crashes = run_two([a, b], order)
            if got != want2 or crashes:
                fails.append({"what": "the bytes accepted by a socket are not the messages queued for its connection in order, each "
                                      "once (whole node, two connections writable in one pass of the I/O loop, send() outcomes "
                                      "scripted per connection and call)", "kind": "node-level",
                              "line": "NODE " + cfg2 + " | " + " | ".join(pre2) + " | tick x3 | wr 0 " + ",".join(a) + " | wr 1 " +
                                      ",".join(b) + " | block 0 1 | block 1 1 | " + " | ".join(bursts[k] for k in order) + " | both sockets writable again | tick x8",
                              "script": [list(a), list(b)], "real": [g.hex()[:300] for g in got],
                              "expected": [w.hex()[:300] for w in want2]})
                break
        if fails:
            break
    res.count("node-level send() scripts on two connections", n2)
    res.cases += n2
    return fails


def run(res: Result, tier: str, seed: int):
    why, probe_fail = drivable()
    if probe_fail is not None:
        probe_fail["script"] = ["all"]
        return [probe_fail], []          # (a single queued message already violates the property: that is the failing input)
    if why is not None:
        nf = node_level_patterns(res, tier)
        if nf:
            return nf, []
        # (reported as a broken correspondence: the program the proofs are about is not the one that runs)
        return [], [{"line": "WPATH (one message, script [all])", "real": "the write path cannot be driven: " + why[:300],
                     "model": "message written"}]
    rng = random.Random(seed * 1000003 + 15)
    res.rule = ("2..6 messages (one of them unencodable in some families) queued from 1..3 threads x send() scripts {partial "
                "writes of 1..n bytes, EAGAIN, EINTR, ENOBUFS, a hard error} x every interleaving of queueing threads, writer "
                "and I/O loop with up to 2 (quick) / 3 (thorough) preemptions at the source lines touching queue, buffer, lock, "
                "pipe and socket (the real work_write_queue / _handle_connections stepped line by line), plus random schedules; "
                "oracle: accepted bytes always a prefix of, and finally equal to, the concatenation in queueing order; real vs "
                "the Lean interpreter of the extracted program under the same events")
    fails, lines, reals = [], [], []
    total = 0
    cap = 1500 if tier == "quick" else 40000
    for famspec in families(tier):
        fam, bound = famspec[0], famspec[1]
        tmo = famspec[2] if len(famspec) > 2 else 0
        scripts = SCRIPTS if tier != "quick" else SCRIPTS[:8] + [SCRIPTS[9]]
        for script in scripts:
            def on_run(actors, trace):
                f, line, real = finish(actors)
                if line is not None:
                    lines.append(line)
                    reals.append(real)
                if f:
                    f["script"] = script
                    fails.append(f)
                    return True
                return False
            b = bound if tier != "quick" else min(bound, 2)
            runs, _ = linesched.explore(lambda: make_actors(fam, script, tmo), b, on_run, max_runs=cap // len(scripts) + 50)
            total += runs
            res.count(f"schedules bound {b}", runs)
            if len(fails) >= 5:
                break
    fails += node_level_patterns(res, tier)
    # random schedules, random scripts
    for _ in range(150 if tier == "quick" else 4000):
        n = rng.randrange(2, 7)
        nthr = rng.randrange(1, 4)

        def fam():
            per = [[] for _ in range(nthr)]
            for i in range(n):
                m = rng.choice([wpath.Broken, wpath.Broken, wpath.broken_typed, wpath.broken_typed, wpath.broken_header])() if rng.random() < 0.1 else \
                    wpath.make_other(i) if rng.random() < 0.3 else wpath.make_message(i, rng.choice([0, 0, 10, 80]))
                per[rng.randrange(nthr)].append(m)
            return [p for p in per if p] or [[wpath.make_message(0)]]
        script = [rng.choice([1, 2, 3, 7, 20, 50, "all", "soft", "intr", "nobufs"]) for _ in range(rng.randrange(0, 8))]
        if rng.random() < 0.1:
            script.insert(rng.randrange(len(script) + 1), "hard")
        actors = make_actors(fam, script)
        prefix = [rng.randrange(len(actors)) for _ in range(80)]
        acts, trace = linesched.execute(lambda: actors, prefix)
        f, line, real = finish(acts)
        if line is not None:
            lines.append(line)
            reals.append(real)
        total += 1
        if f:
            f["script"] = script
            fails.append(f)
    res.count("random schedules", 150 if tier == "quick" else 4000)
    outs = run_driver(lines)
    div = []
    for line, r, m in zip(lines, reals, outs):
        res.cases += 1
        mm = " ".join(x for x in m.split(" ") if x.startswith(("sent=", "crashed=")))
        if r != mm:
            div.append({"line": line[:1500], "real": r[:400], "model": mm[:400]})
        else:
            res.nontrivial.add(line)
    res.traces_validated += len(lines)
    if lines:
        res.sample({"events": lines[len(lines) // 3][:300], "real": reals[len(lines) // 3][:120]})
    res.extra["schedules_executed"] = total
    return fails[:10], div[:10]


def signature(f: dict):
    return None


def search(res: Result, seed: int, broken) -> list:
    if drivable()[0] is not None:
        return []
    r2 = Result(PROP, "thorough", seed)
    fails, _ = run(r2, "search", seed + 1)
    if not fails:
        # one level finer: a line `buf += encode()` loads buf, encodes, stores -- preemptions between the load and the call
        wpath.FINE = True
        try:
            fails, _ = run(r2, "search", seed + 2)
        finally:
            wpath.FINE = False
    return fails[:3]
