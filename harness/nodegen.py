"""Scenario generators for the node-level checks (C06–C14, C17–C19)."""
from __future__ import annotations

import random

HOST, REALM = "node.local", "realm.local"

CONFIGS = {
    # one known peer, one auth application
    "basic": f"NODE host={HOST};realm={REALM};peer:peer1.x,{REALM},0,0,30,1,0,-,-,-,-;app:4,1,0,b,0,0,-",
    # two peers, two apps with the same id on different peers, one acct app, extra realm
    "two": (f"NODE host={HOST};realm={REALM};cer=3;cea=5;dwa=2;idle=10;"
            f"peer:peer1.x,{REALM},0,0,30,1,0,-,-,-,-;peer:peer2.x,{REALM},0,0,30,1,1,-,-,-,-;"
            "app:4,1,0,b,0,0,other.realm;app:4,1,0,b,0,1,-;app:3,0,1,b,0,0+1,-"),
    # persistent outbound peer with per-peer timers
    "out": (f"NODE host={HOST};realm={REALM};cea=4;idle=8;dwa=3;"
            f"peer:peer1.x,{REALM},1,0,5,1,1,6,-,2,5;peer:peer2.x,{REALM},1,1,3,1,0,-,-,-,-;"
            "app:4,1,0,b,0,0+1,-"),
    # no applications at all, one peer without address
    "noapp": f"NODE host={HOST};realm={REALM};peer:peer1.x,{REALM},1,0,4,0,0,-,-,-,-",
    # one application in both roles (auth and acct) next to an acct-only one
    "both": (f"NODE host={HOST};realm={REALM};peer:peer1.x,{REALM},0,0,30,1,0,-,-,-,-;peer:peer2.x,{REALM},0,0,30,1,0,-,-,-,-;"
             "app:4,1,1,b,0,0+1,-;app:3,0,1,b,0,0,-"),
    # retransmission window of 2
    "rq": f"NODE host={HOST};realm={REALM};rq=2;peer:peer1.x,{REALM},0,0,30,1,0,-,-,-,-;peer:peer2.x,{REALM},0,0,30,1,0,-,-,-,-;app:4,1,0,b,0,0+1,-",
}


def cer(host="peer1.x", auth="4", hbh=11, e2e=22, extra=""):
    a = f",auth={auth}" if auth else ""
    oh = f"oh={host}," if host else ""
    return f"CE:128:0:{hbh}:{e2e}:{oh}or={REALM},ip=10.1.1.1,vid=9,pn=prod{a}{extra}"


def cea(rc=2001, host="peer1.x", hbh=1001, e2e=1, auth="4"):
    oh = f",oh={host}" if host else ""
    return f"CE:0:0:{hbh}:{e2e}:rc={rc}{oh},or={REALM},ip=10.1.1.1,vid=9,pn=prod,auth={auth}"


def dwr(hbh=31, e2e=32, host="peer1.x"):
    return f"DW:128:0:{hbh}:{e2e}:oh={host},or={REALM}"


def dwa(hbh=2001, e2e=5, host="peer1.x", rc=2001):
    return f"DW:0:0:{hbh}:{e2e}:rc={rc},oh={host},or={REALM}"


def dpr(hbh=41, e2e=42, host="peer1.x"):
    return f"DP:128:0:{hbh}:{e2e}:oh={host},or={REALM},dc=0"


def dpa(hbh=2002, e2e=6, host="peer1.x"):
    return f"DP:0:0:{hbh}:{e2e}:rc=2001,oh={host},or={REALM}"


def ccr(hbh=51, e2e=52, host="peer1.x", realm=REALM, app=4, flags=192, drop=()):
    parts = {"sid": "sid=s;1", "oh": f"oh={host}", "or": f"or={REALM}", "dr": f"dr={realm}", "auth": "auth=4",
             "sc": "sc=ctx", "rt": "rt=1", "rn": "rn=0"}
    kv = ",".join(v for k, v in parts.items() if k not in drop)
    return f"CC:{flags}:{app}:{hbh}:{e2e}:{kv}"


def cca(hbh=51, e2e=52, host="peer1.x", rc=2001, drop=()):
    parts = {"sid": "sid=s;1", "rc": f"rc={rc}", "oh": f"oh={host}", "or": f"or={REALM}", "auth": "auth=4", "rt": "rt=1", "rn": "rn=0"}
    kv = ",".join(v for k, v in parts.items() if k not in drop)
    return f"CC:64:4:{hbh}:{e2e}:{kv}"


def unk(hbh=61, e2e=62, host="peer1.x", flags=128, cmd="UN", with_oh=True, realm=REALM, app=4):
    oh = f"oh={host}," if with_oh else ""
    dr = f",dr={realm}" if realm else ""
    return f"{cmd}:{flags}:{app}:{hbh}:{e2e}:sid=s;9,{oh}or={REALM}{dr}"


_uniq = [100]


def message_pool(rng: random.Random, hosts=("peer1.x", "peer2.x"), unique=False) -> list[str]:
    h = rng.choice(hosts)
    hb = rng.choice([11, 12, 13, 2001, 2002, 3001])
    ee = rng.choice([21, 22, 23, 268435464, 268435465])
    if unique:
        _uniq[0] += 1
        hb = _uniq[0]
        ee = rng.choice([ee, 5000 + _uniq[0]])
    return [
        cer(h, "4", hb, ee), cer("stranger.x", "4", hb, ee), cer(h, "99", hb, ee), cer(h, "4294967295", hb, ee),
        cer(None, "4", hb, ee), cer(h.upper(), "4+3", hb, ee),
        cea(2001, h, hb, ee), cea(3010, h, hb, ee), cea(5010, h, hb, ee), cea(2001, None, hb, ee),
        cea(2001, h.upper(), hb, ee), cea(2001, h.capitalize(), hb, ee),      # identities are case-insensitive names
        dwr(0, ee, h), dwr(hb, 0, h), unk(0, ee, h, app=77), dpr(hb, 0, h),      # identifier 0 is an identifier like any other
        dwr(hb, ee, h), dwa(hb, ee, h), dpr(hb, ee, h), dpa(hb, ee, h),
        ccr(hb, ee, h), ccr(hb, ee, h, flags=208), ccr(hb, ee, h, realm="foreign.realm"), ccr(hb, ee, h, realm="other.realm"),
        ccr(hb, ee, h, app=77), ccr(hb, ee, h, drop=("sc",)), ccr(hb, ee, h, drop=("sid", "rt")), ccr(hb, ee, h, drop=("dr",)),
        ccr(hb, ee, h, drop=("oh",)), ccr(hb, ee, h, flags=128),
        cca(hb, ee, h), cca(hb, ee, h, drop=("rc",)), cca(hb, ee, h, drop=("oh",)),
        unk(hb, ee, h), unk(hb, ee, h, with_oh=False), unk(hb, ee, h, cmd="MO"), unk(hb, ee, h, flags=0),
        unk(hb, ee, h, flags=144),
        # requests the node answers itself, of commands without a class, with and without Origin-Host
        unk(hb, ee, h, with_oh=False, realm="foreign.realm"), unk(hb, ee, h, with_oh=False, app=77),
        unk(hb, ee, h, with_oh=False, realm=None), unk(hb, ee, h, realm="foreign.realm"), unk(hb, ee, h, app=77, cmd="MO"),
        f"AC:192:3:{hb}:{ee}:sid=a;1,oh={h},or={REALM},dr={REALM},acct=3,rt=1,rn=0",
        # base-protocol requests whose header carries an application id other than 0, with the P / T bits (the answer mirrors)
        dwr(hb, ee, h).replace("DW:128:0:", "DW:128:4:"), dwr(hb, ee, h).replace("DW:128:0:", "DW:192:4294967295:"),
        dpr(hb, ee, h).replace("DP:128:0:", "DP:128:4:"), dwr(hb, ee, h).replace("DW:128:0:", "DW:144:0:"),
        cer(h, "4", hb, ee).replace("CE:128:0:", "CE:128:4:"),
    ]


def random_config(rng: random.Random) -> str:
    """A configuration drawn at random: 1..3 peers (realm, persistent / always-reconnect / reconnect wait / with or without
    address / default flags, occasional per-peer timers), 0..3 applications (id, auth / acct / both roles, peer subset or
    none, extra realm), node timers."""
    host = rng.choice([HOST, HOST, "zz.local"])
    parts = [f"NODE host={host};realm={REALM}"]
    if rng.random() < 0.6:
        parts.append(f"cea={rng.choice([3, 5])};cer={rng.choice([3, 5])};idle={rng.choice([5, 10, 30])};dwa={rng.choice([2, 4])}")
    npeers = rng.choice([1, 2, 2, 3])
    for i in range(npeers):
        realm = rng.choice([REALM, REALM, "other.realm", "Alpha.NET"])
        per = lambda: rng.choice(["-", "-", "-", str(rng.choice([2, 4, 6]))])       # noqa: E731
        parts.append(f"peer:peer{i + 1}.x,{realm},{rng.choice([0, 0, 1])},{rng.choice([0, 1])},{rng.choice([2, 5, 30])},"
                     f"{rng.choice([1, 1, 1, 0])},{rng.choice([0, 0, 1])},{per()},{per()},{per()},{per()}")
    for _ in range(rng.choice([0, 1, 1, 2, 3])):
        auth, acct = rng.choice([(1, 0), (1, 0), (0, 1), (1, 1)])
        ps = [str(k) for k in range(npeers) if rng.random() < 0.6]
        parts.append(f"app:{rng.choice([4, 4, 3, 1])},{auth},{acct},b,0,{'+'.join(ps) if ps else '-'},{rng.choice(['-', '-', 'other.realm'])}")
    return ";".join(parts)


def dials_at_start(cfg: str) -> int:
    """number of connections `start` creates: one per persistent peer that has an address"""
    n = 0
    for part in cfg.split(";"):
        if part.startswith("peer:"):
            f = part[5:].split(",")
            if f[2] == "1" and f[5] == "1":
                n += 1
    return n


def random_scenario(rng: random.Random, cfg_name: str, depth: int, unique=False, handshake=0.0) -> str:
    """unique: fresh hop-by-hop id per generated message; handshake: probability
    that a freshly accepted connection immediately gets a valid CER.  `cfg_name`: a key of CONFIGS or a whole NODE line."""
    cfg = cfg_name if cfg_name.startswith("NODE ") else CONFIGS[cfg_name]
    _uniq[0] = 100
    evs = []
    persistent = cfg_name in ("out", "noapp") or (cfg_name.startswith("NODE ") and dials_at_start(cfg) > 0)
    plans = ["ok", "inp", "fail"]
    evs.append("start " + ",".join(rng.choice(plans) for _ in range(3)) if persistent or rng.random() < 0.3 else "start")
    nconn = 0
    napps = cfg.count("app:")
    for _ in range(depth):
        k = rng.random()
        c = rng.randrange(0, max(1, nconn + (2 if persistent else 0)))
        if k < 0.12:
            evs.append("acc")
            if rng.random() < handshake:
                _uniq[0] += 1
                evs.append(f"rx {nconn + (2 if persistent else 0) if False else nconn} " + cer(rng.choice(["peer1.x", "peer2.x"]), "4+3", _uniq[0], 9000 + _uniq[0]))
            nconn += 1
        elif k < 0.62:
            msgs = [rng.choice(message_pool(rng, unique=unique))]
            if rng.random() < 0.15:
                msgs.append(rng.choice(message_pool(rng, unique=unique)))
            evs.append(f"rx {c} " + " ".join(msgs))
        elif k < 0.74:
            evs.append(f"adv {rng.choice([1, 2, 3, 4, 5, 6, 9, 11, 31])}")
        elif k < 0.78:
            evs.append(f"eof {c}")
        elif k < 0.81:
            evs.append(f"rerr {c} {rng.choice(['soft', 'hard'])}")
        elif k < 0.88 and napps:
            evs.append(f"ans {rng.randrange(napps)} {rng.randrange(0, 3)} {rng.choice([2001, 5012, 4001])}")
        elif k < 0.92 and napps:
            m = ccr(0, rng.choice([0, 77]), HOST, rng.choice([REALM, "other.realm", "foreign.realm"]))
            evs.append(f"req {rng.randrange(napps)} {m} {rng.choice([1, 5])}")
        elif k < 0.95:
            evs.append(f"conn {c} {rng.choice(['ok', 'fail'])}")
        elif k < 0.97:
            evs.append("dial " + rng.choice(plans))
        elif k < 0.985:
            evs.append(f"wr {c} {rng.choice(['soft', 'hard', 'soft,soft'])}")
        else:
            evs.append(f"stop {rng.choice([0, 1])} {rng.choice([1, 3])}")
            break
    return cfg + " | " + " | ".join(evs)


def sized(desc: str, total: int, key: str = "pn") -> str:
    """the message description with its `key=` value (a string AVP: pn Product-Name, sid Session-Id) lengthened so that the
    wire message is exactly `total` bytes long (a socket read of 2048 bytes can be filled exactly by one message)"""
    import sim as simmod
    head, _, kvs = desc.rpartition(":")
    items = kvs.split(",")
    idx = next(i for i, it in enumerate(items) if it.startswith(key + "="))
    base = items[idx]
    for n in range(0, total):
        items[idx] = base + "p" * n
        cand = head + ":" + ",".join(items)
        ln = len(simmod.build_msg(cand))
        if ln == total:
            return cand
        if ln > total:
            break
    raise ValueError(f"no {key} length gives a message of {total} bytes")
