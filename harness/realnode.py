"""Deterministic, in-process execution of the real node / peer code: inert
thread stubs, synchronous reader/writer pumping, virtual environment."""
from __future__ import annotations

import os
import queue
import sys

os.environ["TZ"] = "UTC"
from common import REPO_SRC  # noqa: E402

if REPO_SRC not in sys.path:
    sys.path.insert(0, REPO_SRC)

import logging  # noqa: E402
import common as _common  # noqa: E402
_common.quiet_debug_logging()


class InertThread:
    """Replacement for StoppableThread: never runs anything by itself.
    `stop()` is remembered for good (`stop_requested`); the synchronous pumps
    end a worker's loop through the separate `pause` flag."""
    instances: list = []

    def __init__(self, group=None, target=None, name=None, args=(), kwargs=None, *, daemon=None):
        self.target = target
        self.stop_requested = False
        self.pause = False
        self.started = False
        self.crashed = False
        InertThread.instances.append(self)

    @property
    def is_stopped(self):
        return self.stop_requested or self.pause

    @is_stopped.setter
    def is_stopped(self, v):
        self.pause = bool(v)

    def start(self):
        self.started = True

    def stop(self):
        self.stop_requested = True

    def join(self, timeout=None):
        pass

    def is_alive(self):
        return self.started and not self.stop_requested and not self.crashed


class Livelock(BaseException):
    pass


class OneShotQueue:
    """queue stub: get() returns the queued items, then stops the worker."""

    def __init__(self, thread):
        self.items: list = []
        self.thread = thread

    def put(self, x, *a, **k):
        self.items.append(x)

    def get(self, *a, **k):
        if self.items:
            return self.items.pop(0)
        self.thread.is_stopped = True
        raise queue.Empty()

    def get_nowait(self):
        # (as queue.Queue: no stopping of the worker here -- only a blocking get() that finds nothing ends the pump)
        if self.items:
            return self.items.pop(0)
        raise queue.Empty()

    def put_nowait(self, x):
        self.items.append(x)

    def qsize(self):
        return len(self.items)

    def empty(self):
        return not self.items


def install_inert_threads():
    import diameter.node.node as node_mod
    import diameter.node.peer as peer_mod
    import diameter.node.application as app_mod
    node_mod.StoppableThread = InertThread
    peer_mod.StoppableThread = InertThread
    app_mod.StoppableThread = InertThread


def run_budgeted(fn, code_objects, budget: int):
    """Run fn() counting executed lines of the given code objects; raise
    Livelock when the budget is exceeded (the real loop is not progressing)."""
    count = [0]

    def tracer(frame, event, arg):
        if frame.f_code in code_objects:
            def local(frame, event, arg):
                if event == "line":
                    count[0] += 1
                    if count[0] > budget:
                        raise Livelock()
                return local
            return local
        return None
    old = sys.gettrace()
    sys.settrace(tracer)
    try:
        return fn(), count[0]
    finally:
        sys.settrace(old)


_devnull = None


def devnull_fd():
    global _devnull
    if _devnull is None:
        _devnull = os.open("/dev/null", os.O_WRONLY)
    return _devnull


def new_reader(sender: bool = False):
    """A real PeerConnection (accepted, or dialled when `sender`) whose reader runs synchronously on demand."""
    install_inert_threads()
    from diameter.node import peer as peer_mod
    conn = peer_mod.PeerConnection("127.0.0.1", 3868, peer_mod.PEER_SEND if sender else peer_mod.PEER_RECV, devnull_fd())
    conn.state = peer_mod.PEER_READY
    conn.ident = "00" * 6
    delivered = []

    def handler(c, m):
        delivered.append(m)
        if len(delivered) > 20000:          # far more deliveries than any stream here holds frames: the reader is spinning
            raise Livelock()
    conn.message_handler = handler
    th = conn._read_thread
    conn._read_buffer_queue = OneShotQueue(th)
    return conn, delivered


def feed_real(conn, chunk: bytes, budget: int = 40000, alarm_s: float = 2.0):
    """Feed one chunk through the real work_read_queue; returns 'ok' | 'spin'."""
    from diameter.node import peer as peer_mod
    th = conn._read_thread
    if conn.state == peer_mod.PEER_CLOSED:
        return "closed"
    th.is_stopped = False
    conn._read_buffer_queue.thread = th
    conn._read_buffer_queue.put(chunk)
    # livelock detector: a wall-clock alarm (a spinning reader never returns;
    # legitimate processing of <= 64 KiB takes milliseconds)
    import signal

    def on_alarm(signum, frame):
        raise Livelock()
    old = signal.signal(signal.SIGALRM, on_alarm)
    signal.setitimer(signal.ITIMER_REAL, alarm_s)
    try:
        conn.work_read_queue(th)
        return "ok"
    except Livelock:
        return "spin"
    except Exception as e:  # noqa        (an exception leaving work_read_queue ends the reader thread)
        return "died:" + type(e).__name__
    finally:
        signal.setitimer(signal.ITIMER_REAL, 0)
        signal.signal(signal.SIGALRM, old)


def frame_real(chunks: list[bytes], alarm_s: float = 2.0, sender: bool = False) -> str:
    from diameter.node import peer as peer_mod
    conn, delivered = new_reader(sender)
    spin = False
    died = ""
    for c in chunks:
        r = feed_real(conn, c, alarm_s=alarm_s)
        if r == "spin":
            spin = True
            break
        if r.startswith("died:"):
            died = r[5:]
            break
        if conn.state == peer_mod.PEER_CLOSED:
            break
    dl = ",".join(f"{m.header.command_code}:{m.header.hop_by_hop_identifier}:{m.header.end_to_end_identifier}:{m.header.length}"
                  for m in delivered)
    closed = 1 if conn.state == peer_mod.PEER_CLOSED else 0
    if spin and alarm_s < 10:
        # a reader that did not return within the alarm is tried again from scratch with a five times longer one
        return frame_real(chunks, alarm_s=10.0, sender=sender)
    return f"D[{dl}] closed={closed} spin={1 if spin else 0} resid={len(conn._read_buffer)}" + (f" died={died}" if died else "")
