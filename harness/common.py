"""Shared machinery of the checks: regenerate tables, build Lean targets, audit
axioms, run the model driver, write evidence / replays, known findings."""
from __future__ import annotations

import fcntl
import hashlib
import json
import os
import re
import subprocess
import sys
import time

VERIF = os.path.dirname(os.path.dirname(os.path.abspath(__file__)))
LEAN = os.path.join(VERIF, "lean")
HARNESS = os.path.join(VERIF, "harness")
EVIDENCE = os.path.join(VERIF, "evidence")
REPLAYS = os.path.join(VERIF, "replays")
REPO = os.environ.get("DV_REPO", "/repo")
REPO_SRC = os.path.join(REPO, "src")
PY = "/venv/bin/python"
ALLOWED_AXIOMS = {"propext", "Classical.choice", "Quot.sound"}
FORBIDDEN = re.compile(r"\b(sorry|admit|native_decide|bv_decide|implemented_by|unsafe)\b|^\s*axiom\s|maxHeartbeats\s+0\b", re.M)

TRUSTED_BASE = [
    "Lean 4.33 kernel; axioms limited to propext, Classical.choice, Quot.sound (audited with #print axioms on every run)",
    "Lean compiler/runtime executing the model driver (correspondence only, never a theorem)",
    "harness/extract.py (translator: tables read from the imported package) and the correspondence harness",
    "CPython 3.12 primitives modelled as given: struct.pack/unpack, bytes slicing, utf-8 codec, socket.inet_pton/ntop, datetime under TZ=UTC, dict insertion order, queue.Queue, threading.Lock",
]


def log(*a):
    print(*a, file=sys.stderr, flush=True)


class ToolFailure(Exception):
    pass


class Lock:
    def __init__(self, name="build"):
        self.path = os.path.join(LEAN, f".{name}.lock")

    def __enter__(self):
        self.f = open(self.path, "w")
        fcntl.flock(self.f, fcntl.LOCK_EX)
        return self

    def __exit__(self, *a):
        fcntl.flock(self.f, fcntl.LOCK_UN)
        self.f.close()


def regenerate() -> dict:
    """Run the translator in a fresh interpreter against /repo's working tree."""
    env = dict(os.environ, TZ="UTC", DV_REPO_SRC=REPO_SRC)
    env.pop("PYTHONPATH", None)
    with Lock("gen"):
        p = subprocess.run([PY, os.path.join(HARNESS, "extract.py")], env=env,
                           capture_output=True, text=True, timeout=300)
    if p.returncode != 0:
        return {"error": p.stderr[-4000:], "notes": ["translator failed"], "info": {}}
    return json.loads(p.stdout)


def lake_build(targets: list[str], timeout=3000) -> tuple[bool, dict[str, str], str]:
    """Build targets; returns (all ok, {failed module: error text}, full log)."""
    with Lock("build"):
        p = subprocess.run(["lake", "build"] + targets, cwd=LEAN, capture_output=True,
                           text=True, timeout=timeout)
    out = p.stdout + p.stderr
    failed: dict[str, str] = {}
    cur = None
    for line in out.splitlines():
        m = re.match(r"^✖ \[\d+/\d+\] Building (\S+)", line)
        if m:
            cur = m.group(1)
            failed[cur] = ""
            continue
        if re.match(r"^[✔⚠ℹ] \[\d+/\d+\]", line):
            cur = None
        if cur and line.startswith("error:"):
            failed[cur] += line + "\n"
    m = re.search(r"Some required targets logged failures:\n((?:- .*\n?)+)", out)
    if m:
        for l in m.group(1).splitlines():
            failed.setdefault(l[2:].strip(), "")
    return p.returncode == 0, failed, out


def theorem_names(module_file: str, prefix: str) -> list[str]:
    try:
        src = open(module_file).read()
    except FileNotFoundError:
        return []
    return re.findall(r"^theorem\s+(" + re.escape(prefix) + r"_\w+)", src, re.M)


def strip_comments(src: str) -> str:
    # remove block comments (nested not handled beyond one level) and line comments
    out = []
    depth = 0
    i = 0
    while i < len(src):
        if src.startswith("/-", i):
            depth += 1
            i += 2
        elif src.startswith("-/", i) and depth:
            depth -= 1
            i += 2
        elif depth:
            i += 1
        elif src.startswith("--", i):
            j = src.find("\n", i)
            i = len(src) if j < 0 else j
        else:
            out.append(src[i])
            i += 1
    return "".join(out)


def forbidden_tokens(files: list[str]) -> list[str]:
    hits = []
    for f in files:
        try:
            src = strip_comments(open(f).read())
        except FileNotFoundError:
            continue
        for m in FORBIDDEN.finditer(src):
            hits.append(f"{os.path.relpath(f, VERIF)}: {m.group(0).strip()}")
    return hits


def lean_files_of(mods: list[str]) -> list[str]:
    return [os.path.join(LEAN, m.replace(".", "/") + ".lean") for m in mods]


def audit(prop: str, prop_modules: list[str]) -> dict:
    """Generate DV/Audit/<prop>.lean, build it, parse `#print axioms`.

    Returns {"obligations": [names], "discharged": [names], "bad_axioms": {thm: [...]},
             "failed_modules": {...}, "forbidden": [...]}"""
    thms: list[tuple[str, str]] = []
    for mod in prop_modules:
        f = os.path.join(LEAN, mod.replace(".", "/") + ".lean")
        for t in theorem_names(f, prop):
            thms.append((mod, t))
    # build property modules first, individually attributable
    ok, failed, out = lake_build(prop_modules)
    good_mods = [m for m in prop_modules if m not in failed]
    # a module also fails when one of its imports failed
    if not ok:
        for m in prop_modules:
            if m not in failed and not os.path.exists(
                    os.path.join(LEAN, ".lake/build/lib/lean", m.replace(".", "/") + ".olean")):
                failed[m] = "(import failed)"
        good_mods = [m for m in prop_modules if m not in failed]
    audit_mod = f"DV.Audit.{prop}"
    audit_file = os.path.join(LEAN, "DV", "Audit", f"{prop}.lean")
    src = "-- GENERATED by harness/common.py: axiom audit of the property theorems.\n"
    src += "".join(f"import {m}\n" for m in good_mods)
    spaces = ["DV"]
    for f in lean_files_of(good_mods):
        txt = open(f).read()
        for ns in re.findall(r"^namespace (\S+)", txt, re.M):
            if ns not in spaces:
                spaces.append(ns)
        if "NodeQ" in txt and "DV.Node" not in spaces:
            spaces.append("DV.Node")
    src += "".join(f"open {ns}\n" for ns in spaces)
    for mod, t in thms:
        if mod in good_mods:
            src += f"#print axioms {t}\n"
    from extract import write_if_changed  # type: ignore
    write_if_changed(audit_file, src)
    discharged, bad = [], {}
    if good_mods:
        with Lock("build"):
            p = subprocess.run(["lake", "env", "lean", audit_file], cwd=LEAN,
                               capture_output=True, text=True, timeout=1200)
        text = p.stdout + p.stderr
        for mod, t in thms:
            if mod not in good_mods:
                continue
            m = re.search(r"'(?:[A-Za-z.]*\.)?" + re.escape(t) + r"' (does not depend on any axioms|depends on axioms: \[([^\]]*)\])", text)
            if not m:
                bad[t] = ["<no audit output>"]
                continue
            axs = [] if m.group(2) is None else [a.strip() for a in m.group(2).replace("\n", " ").split(",")]
            extra = [a for a in axs if a not in ALLOWED_AXIOMS]
            if extra:
                bad[t] = extra
            else:
                discharged.append(t)
    forb = forbidden_tokens(lean_files_of(prop_modules))
    return {"obligations": [t for _, t in thms], "discharged": discharged,
            "bad_axioms": bad, "failed_modules": failed, "forbidden": forb,
            "build_log_tail": out[-3000:] if not ok else ""}


def leanchecker(prop_modules: list[str], timeout=3000) -> dict:
    """Independent re-check of the compiled property modules (and everything
    they import) with the toolchain's `leanchecker`."""
    t0 = time.time()
    try:
        with Lock("build"):
            p = subprocess.run(["lake", "env", "leanchecker"] + prop_modules, cwd=LEAN,
                               capture_output=True, text=True, timeout=timeout)
    except subprocess.TimeoutExpired:
        return {"ok": False, "error": "leanchecker timed out", "wall_s": round(time.time() - t0, 1)}
    out = (p.stdout + p.stderr)[-2000:]
    return {"ok": p.returncode == 0, "exit": p.returncode, "wall_s": round(time.time() - t0, 1),
            "modules": prop_modules, "tail": out if p.returncode != 0 else out[-300:]}


def replay(mod, path: str) -> int:
    """Re-run what a replay file records against the current tree: scenario lines
    through the real node and the property's oracle; otherwise the whole quick check."""
    data = json.load(open(path))
    bad = 0
    ran = 0
    for v in data.get("violations", []):
        d = v.get("detail", {})
        f = d.get("found", d)
        line = f.get("line") if isinstance(f, dict) else None
        if line and line.startswith("NODE ") and hasattr(mod, "oracle"):
            import nodecheck
            r = nodecheck.run_real(line)
            fs = mod.oracle(line, nodecheck.Obs(r)) or []
            ran += 1
            print(f"replay: {line[:160]}…  ->  {'FAILS: ' + fs[0]['what'] if fs else 'holds'}")
            bad += 1 if fs else 0
    if ran:
        if bad:
            print(f"VIOLATION property={data.get('property')} replay={path}")
        return 1 if bad else 0
    print("replay: no scenario line recorded; re-running the quick check")
    p = subprocess.run([os.path.join(VERIF, "check"), data.get("property", "")])
    return p.returncode


_driver_built = False


def ensure_driver() -> str:
    global _driver_built
    exe = os.path.join(LEAN, ".lake/build/bin/dvdriver")
    if not _driver_built:
        ok, failed, out = lake_build(["dvdriver"])
        if not ok:
            raise ToolFailure("driver build failed:\n" + out[-3000:])
        _driver_built = True
    return exe


def run_driver(lines: list[str], timeout=1800) -> list[str]:
    exe = ensure_driver()
    inp = "\n".join(lines) + "\n"
    p = subprocess.run([exe], input=inp, capture_output=True, text=True, timeout=timeout)
    if p.returncode != 0:
        raise ToolFailure(f"driver exited {p.returncode}: {p.stderr[-2000:]}")
    outs = p.stdout.split("\n")
    if outs and outs[-1] == "":
        outs.pop()
    if len(outs) != len(lines):
        raise ToolFailure(f"driver produced {len(outs)} lines for {len(lines)} inputs")
    return outs


# ------------------------------------------------------------------ findings
def known_findings(prop: str) -> list[dict]:
    out = []
    try:
        for line in open(os.path.join(VERIF, "known_findings.txt")):
            line = line.strip()
            if not line.startswith("finding:"):
                continue
            m = re.match(r"finding:\s+property=(\S+)\s+signature=(\S+)\s+(.*)", line)
            if m and m.group(1) == prop:
                out.append({"signature": m.group(2), "text": m.group(3)})
    except FileNotFoundError:
        pass
    return out


class Result:
    """Collects what a check run did and turns it into exit code + evidence."""

    def __init__(self, prop: str, tier: str, seed: int):
        self.prop = prop
        self.tier = tier
        self.seed = seed
        self.t0 = time.time()
        self.violations: list[dict] = []
        self.known_hits: dict[str, str] = {}
        self.cases = 0
        self.nontrivial: set = set()
        self.samples: list = []
        self.dist: dict = {}
        self.audit: dict = {}
        self.notes: list[str] = []
        self.traces_validated = 0
        self.rule = ""
        self.assumptions: list[str] = []
        self.extra: dict = {}

    def count(self, key: str, n: int = 1):
        self.dist[key] = self.dist.get(key, 0) + n

    def sample(self, x, limit=6):
        if len(self.samples) < limit:
            self.samples.append(x)

    def violation(self, kind: str, detail: dict, no_input: bool = False):
        self.violations.append({"kind": kind, "detail": detail, "no_failing_input": no_input})

    def known(self, signature: str, text: str):
        self.known_hits[signature] = text

    def finish(self) -> int:
        os.makedirs(EVIDENCE, exist_ok=True)
        a = self.audit or {"obligations": [], "discharged": []}
        wall = time.time() - self.t0
        # replay files + VIOLATION lines
        lines = []
        for sig, text in self.known_hits.items():
            print(f"KNOWN-FINDING: property={self.prop} {text}")
        if self.violations:
            os.makedirs(REPLAYS, exist_ok=True)
            # one replay file per run (first failing-input violation preferred)
            vs = sorted(self.violations, key=lambda v: v["no_failing_input"])
            v = vs[0]
            blob = json.dumps({"property": self.prop, "violations": vs[:20]}, indent=1, sort_keys=True, default=str)
            h = hashlib.sha1(blob.encode()).hexdigest()[:12]
            path = os.path.join(REPLAYS, f"{self.prop}-{h}.json")
            with open(path, "w") as f:
                f.write(blob)
            suffix = " no-failing-input-found" if all(x["no_failing_input"] for x in vs) else ""
            print(f"VIOLATION property={self.prop} replay={path}{suffix}")
        ev = {
            "property_id": self.prop,
            "tier": self.tier,
            "seed": self.seed,
            "level": "proof",
            "coverage": {
                "obligations": len(a.get("obligations", [])),
                "discharged": len(a.get("discharged", [])),
                "checker_cmd": "cd /verif/lean && lake build <property modules> && lake env lean DV/Audit/%s.lean  (#print axioms per theorem; thorough tier adds lake env leanchecker)" % self.prop,
                "trusted_base": TRUSTED_BASE,
                "obligation_names": a.get("obligations", []),
                "undischarged": [t for t in a.get("obligations", []) if t not in a.get("discharged", [])],
                "evaluations": self.cases,
                "distinct_nontrivial": len(self.nontrivial),
                "rule": self.rule,
                "samples": self.samples,
                "traces_validated_against_impl": self.traces_validated,
                "distribution": self.dist,
                "known_findings_hit": sorted(self.known_hits),
                "notes": self.notes,
                **self.extra,
            },
            "assumptions": self.assumptions,
            "wall_s": round(wall, 2),
            "violations": len(self.violations),
        }
        with open(os.path.join(EVIDENCE, f"{self.prop}.json"), "w") as f:
            json.dump(ev, f, indent=1, default=str)
        return 1 if self.violations else 0


def apply_audit(res: Result, a: dict, search_hint: str = ""):
    """Record audit outcome; undischarged obligations become (no-input) violations
    unless the caller's search attaches a concrete input."""
    res.audit = a
    if a.get("forbidden"):
        res.violation("forbidden-token", {"hits": a["forbidden"]}, no_input=True)
    for t, ax in a.get("bad_axioms", {}).items():
        res.violation("axiom", {"theorem": t, "axioms": ax}, no_input=True)
    return [t for t in a.get("obligations", []) if t not in a.get("discharged", [])]


def quiet_debug_logging():
    """The library's loggers at DEBUG with a sink that formats every record and throws it away: everything the library does
    for the sake of logging (message dumps, statistics lines, values computed for a log line) is executed as it would be in
    a deployment that logs at DEBUG, and nothing is printed.  (A record whose lazy %-formatting fails is dropped, as the
    standard handlers do.)"""
    import logging

    class _Sink(logging.Handler):
        def emit(self, record):
            try:
                record.getMessage()
            except Exception:  # noqa
                pass
    lg = logging.getLogger("diameter")
    if not any(isinstance(h, _Sink) for h in lg.handlers):
        lg.addHandler(_Sink())
    lg.setLevel(logging.DEBUG)
    lg.propagate = False
