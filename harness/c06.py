"""C06 — capabilities exchange gates all traffic and yields the specified outcome."""
from __future__ import annotations

import itertools
import random

from common import Result
import nodegen
import nodecheck
from nodecheck import Obs, kv, parse_msg, parse_cfg

PROP = "C06"
MODULES = ["DV.Properties.C06", "DV.Properties.C06Hist", "DV.Properties.C06Cer", "DV.Properties.ConfigTie", "DV.Properties.C06Send"]
KEEP = {"OUT": None, "APP": None, "CONN": ["state", "dir", "live"], "PEER": ["reason"], "CRASH": None}
T0 = 1700000000


def alphabet(rng, k=0, uniq=[500]):
    uniq[0] += 1
    h, e = uniq[0], 7000 + uniq[0]
    p = "peer1.x"
    return [
        nodegen.cer(p, "4", h, e), nodegen.cer("stranger.x", "4", h, e), nodegen.cer(p, "99", h, e),
        nodegen.cer(p, "4294967295", h, e), nodegen.cea(2001, p, h, e), nodegen.cea(3010, p, h, e),
        nodegen.cea(5010, p, h, e), nodegen.dwr(h, e, p), nodegen.dwa(h, e, p), nodegen.dpr(h, e, p), nodegen.dpa(h, e, p),
        nodegen.ccr(h, e, p), nodegen.ccr(h, e, "stranger.x"), nodegen.cca(h, e, p), nodegen.unk(h, e, p),
        # application ids announced in the other role only: nothing in common
        nodegen.cer(p, "", h, e, ",acct=4"), nodegen.cer(p, "3", h, e), nodegen.cer(p, "3", h, e, ",acct=4"),
        # the peer writes its name with capitals (host identities compare without regard to case)
        nodegen.cer(p.upper(), "4", h, e), nodegen.cer(p.capitalize(), "4+3", h, e, ",acct=3"),
        # a 2001 CEA is a 2001 CEA, whatever applications it lists (other ids, the other role, none at all)
        nodegen.cea(2001, p, h, e, auth="99"), nodegen.cea(2001, p, h, e, auth="3"),
        f"CE:0:0:{h}:{e}:rc=2001,oh={p},or={nodegen.REALM},ip=10.1.1.1,vid=9,pn=prod",
        f"CE:0:0:{h}:{e}:rc=2001,oh={p},or={nodegen.REALM},ip=10.1.1.1,vid=9,pn=prod,acct=4",
        # application ids inside Vendor-Specific-Application-Id: shared, in the other role only, next to a plain one
        nodegen.cer(p, "", h, e, ",vauth=4"), nodegen.cer(p, "", h, e, ",vacct=4"), nodegen.cer(p, "", h, e, ",vacct=3"),
        nodegen.cer(p, "99", h, e, ",vauth=4+5"), nodegen.cer(p, "", h, e, ",vauth=99,vacct=98"),
        # a second Host-IP-Address whose payload is not an address (family / length mismatch, truncated, unassigned family)
        nodegen.cer(p, "4", h, e, ",ipbad=1"), nodegen.cer(p, "4", h, e, ",ipbad=2"),
        nodegen.cer(p, "4", h, e, ",ipbad=3"), nodegen.cer("stranger.x", "4", h, e, ",ipbad=4"),
    ]


def oracle(line: str, obs: Obs):
    cfg = parse_cfg(line)
    fails = []
    peers = {p["name"]: p for p in cfg["peers"]}
    auth_ids = {a["id"] for a in cfg["apps"] if a["auth"]}
    acct_ids = {a["id"] for a in cfg["apps"] if a["acct"]}
    state, direction, succeeded, ce_seen = {}, {}, set(), {}
    first_cer: dict = {}         # accepted connection -> Origin-Host of the first CER read on it (whose connection it is)

    def owner_of(c, d):
        # the peer whose timers apply: the one that was dialled, or the configured peer whose CER the connection carried
        if d["dir"] == "S":
            return d.get("name") if d.get("name") != "-" else None
        return first_cer.get(c)
    now = T0
    simple_clock = True
    for ev, lines in obs.blocks:
        t = ev.split(" ")
        if t[0] == "rx":
            for dmsg in t[2:]:
                try:
                    m0 = parse_msg(dmsg)
                except Exception:  # noqa
                    continue
                if m0["cmd"] == 257 and m0["R"] and f"c{t[1]}" not in first_cer and state.get(f"c{t[1]}") == "CONNECTED":
                    first_cer[f"c{t[1]}"] = m0["keys"].get("oh", "").lower() if m0["keys"].get("oh", "").lower() in peers else None
        if t[0] == "busy":
            t = ["adv", str(int(t[1]) * int(t[2]) // 1000)]      # (k passes of one loop call, `ms` apart: that much time goes by)
        if t[0] == "adv":
            now += int(t[1])
        elif t[0] in ("req", "stop"):
            simple_clock = False
        if t[0] == "rx" and len(t) == 3:
            c = f"c{t[1]}"
            m = parse_msg(t[2])
            st = state.get(c)
            outs = [l for l in lines if l.startswith("OUT " + c + " ")]
            apps = [l for l in lines if l.startswith("APP ") and (" REQ " in l or " ANS " in l)]
            if st is not None and c not in succeeded:
                expected_ce = m["cmd"] == 257 and ((direction.get(c) == "R") == m["R"]) and st == "CONNECTED"
                if not expected_ce:
                    after = next((kv(l) for l in lines if l.startswith("CONN " + c + " ")), None)
                    if after is not None and st not in ("CLOSING", "CLOSED") and after.get("state") != st and not (outs or apps):
                        fails.append({"what": "a message other than the expected CE message changed the state of a connection whose "
                                              "capabilities exchange has not succeeded (it must be ignored)",
                                      "event": ev, "state": st, "real": str(after)})
                    if outs or apps:
                        fails.append({"what": "a connection whose capabilities exchange has not succeeded processed a message "
                                              "other than the expected CE message (answered it / showed it to an application)",
                                      "event": ev, "state": st, "real": (outs + apps)[0]})
                elif direction.get(c) == "R" and m["R"] and ce_seen.get(c, 0) == 0 and "oh" in m["keys"]:
                    # inbound CER: specified outcome
                    oh = m["keys"]["oh"].lower()
                    a = {int(x) for x in m["keys"].get("auth", "").split("+") if x}
                    ac = {int(x) for x in m["keys"].get("acct", "").split("+") if x}
                    relay = 4294967295 in a or 4294967295 in ac
                    # application ids announced inside Vendor-Specific-Application-Id count like the plain ones (RFC 6733 5.3.x)
                    a |= {int(x) for x in m["keys"].get("vauth", "").split("+") if x}
                    ac |= {int(x) for x in m["keys"].get("vacct", "").split("+") if x}
                    if oh not in peers:
                        want = 3010
                    elif (a & auth_ids) or (ac & acct_ids) or relay:
                        want = 2001
                    else:
                        want = 5010
                    bad_ip = "ipbad" in m["keys"]
                    if oh != cfg["host"].lower():
                        # whatever the CER carries: the connection is ready after it exactly when the CEA the node sent says 2001
                        got0 = kv(outs[0]) if outs else {}
                        after0 = next((kv(l) for l in lines if l.startswith("CONN " + c + " ")), {})
                        if (after0.get("state") in ("READY", "WAITDWA")) != (got0.get("rc") == "2001"):
                            fails.append({"what": "connection readiness after the CER does not match the result of the CEA that was sent "
                                                  "(ready iff 2001)", "event": ev, "real": str(after0),
                                          "cea": outs[0] if outs else "(no CEA)"})
                    if oh != cfg["host"].lower() and not bad_ip:
                        # (a CER whose Host-IP-Address does not decode is outside the "specified outcome" clause: the node
                        #  answers 5012 and does not become ready; only the rule above is applied to it)
                        got = kv(outs[0]) if outs else {}
                        la = "+".join(map(str, sorted(auth_ids)))
                        lc = "+".join(map(str, sorted(acct_ids)))
                        want_cea = f"ip=1;vid=99999;pn=python-diameter;auth={la};acct={lc};supp=1"
                        if (not outs or got.get("rc") != str(want) or got.get("oh") != cfg["host"]
                                or got.get("cea") != want_cea or got.get("hbh") != str(m["hbh"])):
                            fails.append({"what": f"inbound CER not answered by the specified CEA (expected result {want}, node "
                                                  f"identity/addresses/vendor/product/application ids)",
                                          "event": ev, "real": outs[0] if outs else "(no CEA)", "expected_cea": want_cea})
                        if len(outs) > 1:
                            fails.append({"what": "inbound CER answered by more than the one specified CEA", "event": ev,
                                          "real": " / ".join(outs)[:400]})
                        after = next((kv(l) for l in lines if l.startswith("CONN " + c + " ")), {})
                        ready = after.get("state") in ("READY", "WAITDWA")
                        if ready != (want == 2001):
                            fails.append({"what": "connection readiness after the CER does not match the specified outcome",
                                          "event": ev, "real": str(after), "expected_result": want})
                        if want == 3010 and after.get("live") != "0":
                            fails.append({"what": "connection of an unknown peer not closed after the 3010 CEA", "event": ev,
                                          "real": str(after)})
                if m["cmd"] == 257:
                    ce_seen[c] = ce_seen.get(c, 0) + 1
            if st is not None and direction.get(c) == "S" and c not in succeeded and m["cmd"] == 257 and not m["R"] \
                    and st == "CONNECTED":
                after = next((kv(l) for l in lines if l.startswith("CONN " + c + " ")), {})
                ok = m["keys"].get("rc") == "2001" and "oh" in m["keys"]
                if (after.get("state") in ("READY", "WAITDWA")) != ok and "oh" in m["keys"]:
                    fails.append({"what": "outbound connection readiness does not follow the CEA result (ready iff 2001)",
                                  "event": ev, "real": str(after)})
                if m["keys"].get("rc") not in (None, "2001") and after.get("live") != "0":
                    fails.append({"what": "outbound connection not closed on a non-2001 CEA", "event": ev, "real": str(after)})
        # first output of a dialled connection is the CER
        for l in lines:
            if l.startswith("OUT "):
                c = l.split(" ")[1]
                d = kv(l)
                if direction.get(c, "S" if any(x.startswith(f"CONN {c} ") and "dir=S" in x for x in lines) else "R") == "S":
                    if c not in ce_seen and not (d["cmd"] == "257" and d["R"] == "1"):
                        fails.append({"what": "first message on a self-initiated connection is not the CER", "real": l})
                    ce_seen.setdefault(c, 0)
                if c not in succeeded and d["R"] == "1" and d["cmd"] not in ("257",):
                    if not any(x.startswith(f"CONN {c} ") and ("state=READY" in x or "state=WAITDWA" in x or "state=DISCONNECTING" in x) for x in lines):
                        fails.append({"what": "request routed over a connection whose capabilities exchange has not succeeded",
                                      "real": l, "event": ev})
        for l in lines:
            if l.startswith("CONN "):
                c = l.split(" ")[1]
                d = kv(l)
                if c not in state:
                    ce_seen.setdefault(c, 0) if d["dir"] == "R" else None
                    established = now
                    state[c + "@t"] = established
                # … and not before: a connection waiting for its CER/CEA is only given up by the timer once the timeout has passed
                if simple_clock and t[0] == "adv" and state.get(c) == "CONNECTED" and d["state"] == "CLOSED" and c not in succeeded:
                    pname = owner_of(c, d)
                    p = peers.get(pname)
                    key = "cer" if d["dir"] == "R" else "cea"
                    tmo = (p or {}).get(key) or cfg[key]
                    if now - state[c + "@t"] <= tmo:
                        fails.append({"what": f"connection given up {now - state[c + '@t']} s after it was established although its "
                                              f"capabilities-exchange timeout is {tmo} s", "event": ev, "real": l})
                state[c] = d["state"]
                direction[c] = d["dir"]
                if d["state"] in ("READY", "WAITDWA"):
                    succeeded.add(c)
                # timeout: not succeeded and older than the configured timeout at a timer check => closed
                if simple_clock and t[0] == "adv" and c not in succeeded and d["state"] == "CONNECTED":
                    pname = owner_of(c, d)
                    p = peers.get(pname)
                    key = "cer" if d["dir"] == "R" else "cea"
                    tmo = (p or {}).get(key) or cfg[key]
                    if now - state[c + "@t"] > tmo:
                        fails.append({"what": f"connection still open {now - state[c + '@t']} s after it was established without a "
                                              f"completed capabilities exchange (timeout {tmo} s)", "event": ev, "real": l,
                                      "signature_hint": "ce_timeout_restarts_on_read"})
    return fails


def scenarios(rng: random.Random, tier: str) -> list[str]:
    out = []
    inbound = nodegen.CONFIGS["two"]
    # corpus: past findings first
    out.append(nodegen.CONFIGS["basic"] + " | start | acc | rx 0 " + nodegen.cer("stranger.x", "4", 1, 2) + " | rx 0 " + nodegen.ccr(3, 4, "stranger.x"))
    out.append(nodegen.CONFIGS["basic"] + " | start | acc | adv 3 | rx 0 " + nodegen.dwr(5, 6) + " | adv 3 | rx 0 " + nodegen.dwr(7, 8) + " | adv 3")
    # exhaustive depth-2 after accept (inbound) and after dial (outbound), plus clock advances
    depth2 = 2 if tier == "quick" else 3
    al = len(alphabet(rng))
    for combo in itertools.product(range(al + 1), repeat=depth2):
        evs = []
        for i in combo:
            evs.append("adv 3" if i == al else "rx 0 " + alphabet(rng)[i])
        out.append(inbound + " | start | acc | " + " | ".join(evs))
        if tier != "quick" or rng.random() < 0.5:
            out.append(nodegen.CONFIGS["out"] + " | start ok,inp | " + " | ".join(evs) + " | adv 3")
    # every CER of the alphabet as the first message, on every configuration (0, 1, 3 applications; auth / acct roles)
    for cfgn in ("noapp", "basic", "two", "rq", "both"):
        for i in range(al):
            msg = alphabet(rng)[i]
            if msg.startswith("CE:128"):
                out.append(nodegen.CONFIGS[cfgn] + " | start fail | acc | rx 0 " + msg + " | rx 0 " + nodegen.dwr(81, 82) + " | tick")
        for relay in (",acct=4294967295", ",vauth=4294967295"):
            out.append(nodegen.CONFIGS[cfgn] + " | start fail | acc | rx 0 " + nodegen.cer("peer1.x", "", 83, 84, relay) + " | tick")
    # application ids at the edges of the 32-bit range: an application with id 0 (and one with 4294967294) -- the ids the
    # node and the peer share are exactly {0}, {0} in the accounting role, {0} inside Vendor-Specific-Application-Id,
    # 0 next to an id the node does not have, only ids the node does not have (-> 5010)
    for role in ((1, 0), (0, 1), (1, 1)):
        zero = (f"NODE host={nodegen.HOST};realm={nodegen.REALM};peer:peer1.x,{nodegen.REALM},0,0,30,1,0,-,-,-,-;"
                f"app:0,{role[0]},{role[1]},b,0,0,-;app:4294967294,{role[0]},{role[1]},b,0,0,-")
        for auth, extra in (("0", ""), ("", ",acct=0"), ("", ",vauth=0"), ("", ",vacct=0"), ("0+99", ""), ("99", ",acct=98"),
                            ("4294967294", ""), ("", ",acct=4294967294"), ("0", ",acct=0")):
            out.append(zero + " | start | acc | rx 0 " + nodegen.cer("peer1.x", auth, 7401, 7402, extra) + " | rx 0 " +
                       nodegen.dwr(7403, 7404) + " | tick")
        zero_out = zero.replace(",0,0,30,1,0,-,-,-,-;", ",1,0,30,1,0,-,-,-,-;", 1)
        out.append(zero_out + " | start ok | rx 0 " + nodegen.cea(2001, "peer1.x", 2001, 268435464, auth="0") + " | tick | rx 0 " +
                   nodegen.dwr(7405, 7406) + " | tick")
    # a node without applications dials a peer: the 2001 CEA makes the connection ready
    noapp_out = (f"NODE host={nodegen.HOST};realm={nodegen.REALM};peer:peer1.x,{nodegen.REALM},1,0,30,1,0,-,-,-,-")
    for a in ("4", "99"):
        out.append(noapp_out + " | start ok | rx 0 " + nodegen.cea(2001, "peer1.x", 2001, 9, auth=a) + " | tick | rx 0 " + nodegen.dwr(85, 86) + " | tick")
    # a known peer whose CER is answered 5010 (nothing in common): the connection stays open until *its* CER timer runs out
    for p_cer, n_cer in ((2, 6), (6, 2), (3, 3)):
        cfgp = (f"NODE host={nodegen.HOST};realm={nodegen.REALM};cea=9;cer={n_cer};idle=60;"
                f"peer:peer1.x,{nodegen.REALM},0,0,30,1,0,-,{p_cer},-,-;app:4,1,0,b,0,0,-")
        for k in sorted({min(p_cer, n_cer), min(p_cer, n_cer) + 1, max(p_cer, n_cer), max(p_cer, n_cer) + 1}):
            out.append(cfgp + " | start | acc | rx 0 " + nodegen.cer("peer1.x", "99", 91, 92) + f" | adv {k} | tick")
    # timeout grid: node-level CER/CEA timeouts other than the defaults, peers without overrides
    for cea_t, cer_t in ((1, 2), (2, 1), (9, 7), (3, 3)):
        cfg = (f"NODE host={nodegen.HOST};realm={nodegen.REALM};cea={cea_t};cer={cer_t};idle=60;"
               f"peer:peer1.x,{nodegen.REALM},1,0,50,1,0,-,-,-,-;peer:peer2.x,{nodegen.REALM},0,0,30,1,0,-,-,-,-;app:4,1,0,b,0,0+1,-")
        for k in sorted({max(1, cea_t - 1), cea_t, cea_t + 1, cea_t + 2}):
            out.append(cfg + f" | start ok | adv {k} | tick")
            out.append(cfg + f" | start ok | adv {k} | rx 0 " + nodegen.cea(2001, "peer1.x", 2001, 9) + " | tick")
            out.append(cfg + f" | start inp | conn 0 ok | adv {k} | tick")
        for k in sorted({max(1, cer_t - 1), cer_t, cer_t + 1, cer_t + 2}):
            out.append(cfg + f" | start fail | acc | adv {k} | tick")
            out.append(cfg + f" | start fail | acc | adv {k} | rx 1 " + nodegen.cer("peer2.x", "4", 71, 72) + " | tick")
    # an application sends a request while the connection the node has dialled is still awaiting its CEA (CONNECTED),
    # while the non-blocking connect is still in progress (CONNECTING), after a rejecting CEA, after the 2001 CEA
    for cfgn in ("out", "basic"):
        req = f"req 0 {nodegen.ccr(0, 0, 'node.local')} 1"
        out.append(nodegen.CONFIGS[cfgn] + f" | start ok,ok | {req} | tick | rx 0 " + nodegen.cea(2001, "peer1.x", 2001, 268435464) + f" | {req} | tick")
        out.append(nodegen.CONFIGS[cfgn] + f" | start inp,inp | {req} | conn 0 ok | {req} | tick")
        out.append(nodegen.CONFIGS[cfgn] + f" | start ok,ok | rx 0 " + nodegen.cea(5010, "peer1.x", 2001, 268435464) + f" | {req} | tick")
        out.append(nodegen.CONFIGS[cfgn] + f" | start ok,ok | acc | {req} | rx 2 " + nodegen.cer("peer1.x", "4", 7001, 7002) + f" | {req} | tick")
    # more than the statistics window (1000 s) between two connections of one peer: the second exchange is answered
    # like the first (one CEA 2001, ready)
    for gap in (999, 1001, 2500):
        out.append(nodegen.CONFIGS["basic"] + " | start | acc | rx 0 " + nodegen.cer("peer1.x", "4", 7101, 7102) + " | rx 0 " + nodegen.dwr(7103, 7104) +
                   f" | eof 0 | tick | adv {gap} | tick | acc | rx 1 " + nodegen.cer("peer1.x", "4", 7105, 7106) + " | rx 1 " + nodegen.dwr(7107, 7108) + " | tick")
    # (lines of the implementation that tools/implcov.py showed no scenario reached)
    # a CEA announcing its applications inside Vendor-Specific-Application-Id AVPs only / as well
    for extra in (",vauth=4", ",vacct=3", ",vauth=4+99,vacct=3", ",vauth=99"):
        for a in ("99", "4"):
            out.append(nodegen.CONFIGS["out"] + " | start ok,ok | rx 0 " + nodegen.cea(2001, "peer1.x", 2001, 268435464, auth=a) + extra +
                       " | tick | rx 0 " + nodegen.dwr(87, 88) + " | tick")
    # a CEA whose Origin-Host is not the dialled peer (an identity the node does not know / another configured peer)
    for who in ("stranger.x", "peer2.x", "PEER1.X"):
        out.append(nodegen.CONFIGS["out"] + " | start ok,ok | rx 0 " + nodegen.cea(2001, who, 2001, 268435464) + " | tick | rx 0 " +
                   nodegen.dwr(89, 90, who) + " | rx 0 " + nodegen.ccr(93, 94, who) + " | tick")
    # a configured peer that carries the node's own name sends a CER while the node has a connection of its own: the
    # election of RFC 6733 5.6.4 (the only input for which `receive_cer` finds "other connections")
    own = (f"NODE host={nodegen.HOST};realm={nodegen.REALM};peer:peer1.x,{nodegen.REALM},1,0,30,1,0,-,-,-,-;"
           f"peer:{nodegen.HOST},{nodegen.REALM},0,0,30,1,0,-,-,-,-;app:4,1,0,b,0,0+1,-")
    out.append(own + " | start ok | acc | rx 1 " + nodegen.cer(nodegen.HOST, "4", 95, 96) + " | tick | rx 1 " + nodegen.dwr(97, 98, nodegen.HOST) + " | tick")
    out.append(own + " | start ok | rx 0 " + nodegen.cea(2001, "peer1.x", 2001, 268435464) + " | acc | rx 1 " + nodegen.cer(nodegen.HOST, "4", 95, 96) +
               " | tick | rx 0 " + nodegen.dwr(97, 98) + " | tick")
    out.append(own + " | start fail | acc | rx 0 " + nodegen.cer(nodegen.HOST, "4", 95, 96) + " | acc | rx 1 " + nodegen.cer(nodegen.HOST, "4", 99, 100) + " | tick")
    # a CEA rejecting the node's CER that echoes the offending AVP in a Failed-AVP: well-formed, with a payload that does not
    # fit the AVP's type (what a 5014 echoes), not an AVP at all, empty -- closed with the rejection reason all the same
    import gen
    osi_ok = gen.rfc_wire(278, 0, 0x40, (7).to_bytes(4, "big")).hex()
    osi_short = gen.rfc_wire(278, 0, 0x40, b"\x00\x07").hex()
    for rc in (5010, 5014, 3010):
        for fav in (osi_ok, osi_short, "", osi_ok + osi_short):      # (content that is no AVP list makes the frame undecodable: the reader skips it, C05)
            out.append(nodegen.CONFIGS["out"] + " | start ok,ok | rx 0 " + nodegen.cea(rc, "peer1.x", 2001, 268435464) + ",fav=" + fav +
                       " | tick | adv 1 | tick")
    # capabilities-exchange messages that fill the node's 2048-byte socket read exactly (once, twice), and their neighbours:
    # the CER is answered 2001 and the connection becomes ready, the CEA makes the dialled connection ready
    for total in (2048, 4096, 2044, 2052):
        out.append(nodegen.CONFIGS["basic"] + " | start | acc | rx 0 " + nodegen.sized(nodegen.cer("peer1.x", "4", 7201, 7202), total) +
                   " | tick | rx 0 " + nodegen.dwr(7203, 7204) + " | tick")
        out.append(nodegen.CONFIGS["out"] + " | start ok,ok | rx 0 " + nodegen.sized(nodegen.cea(2001, "peer1.x", 2001, 268435464), total) +
                   " | tick | rx 0 " + nodegen.dwr(7205, 7206) + " | tick")
    # the I/O loop woken several times a second for longer than the timeout (one call of the loop function, its passes
    # half / a quarter of a second apart): the capabilities-exchange timeouts fire all the same (real node only)
    for k, ms in ((12, 500), (24, 250), (10, 1000)):
        out.append(nodegen.CONFIGS["basic"] + f" | start | acc | busy {k} {ms} | tick")
        out.append(nodegen.CONFIGS["out"] + f" | start ok,ok | busy {k} {ms} | tick")
        out.append(nodegen.CONFIGS["basic"] + f" | start | acc | rx 0 " + nodegen.dwr(7301, 7302) + f" | busy {k} {ms} | tick")
    # random deeper
    for i in range(150 if tier == "quick" else 3000):
        cfgn = rng.choice(["basic", "two", "out", "noapp"])
        out.append(nodegen.random_scenario(rng, cfgn, 6 if tier == "quick" else 10, unique=True, handshake=0.3))
    return out


def run(res: Result, tier: str, seed: int):
    rng = random.Random(seed * 1000003 + 6)
    res.rule = ("all event sequences of depth 2 (quick) / 3 (thorough) over {CER known/unknown/no-common/relay, CEA 2001/3010/5010, "
                "DWR, DWA, DPR, DPA, app request, app answer, unknown command, clock advance} after accept and after dial, plus "
                "random deeper histories on 4 configurations; oracle: gate, CER outcome table and CEA content, outbound order, "
                "timeout; real vs model on OUT/APP/CONN/PEER.reason")
    return nodecheck.run(res, scenarios(rng, tier), KEEP, oracle)


def signature(f: dict):
    if f.get("signature_hint") == "ce_timeout_restarts_on_read":
        return "ce_timeout_restarts_on_read"
    return None


def search(res: Result, seed: int, broken) -> list:
    rng = random.Random(seed * 7919 + 47)
    r2 = Result(PROP, "thorough", seed)
    fails, _ = nodecheck.run(r2, scenarios(rng, "quick")[:600], KEEP, oracle)
    return fails
