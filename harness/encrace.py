"""Two writer threads encoding messages at the same time (part of C02, run in a fresh interpreter).

Every `PeerConnection` has its own writer thread calling `Message.as_bytes()`; a node with two peers encodes two
messages concurrently.  `as_bytes()` of one message must not depend on another message being encoded at the same time.
This script runs the real method (unmodified, real threads gated line by line through sys.settrace on every code
object of message/_base.py, message/packer.py and message/avp/avp.py) for two different messages under every sampled
single-preemption schedule "thread 0 runs k lines, thread 1 runs its whole call, thread 0 finishes" and compares both
results with the sequential encodings (which equal the wire input the messages were decoded from).  Second part: two
threads calling `find_avps` on one freshly decoded message (same path / two paths through the same Grouped AVPs, which
are decoded lazily on first access) under the same schedules; each must return what it returns alone.

Prints one JSON document: {"schedules": n, "fails": [...]}.
"""
from __future__ import annotations

import json
import os
import sys

sys.path.insert(0, os.environ.get("DV_REPO_SRC", "/repo/src"))
sys.path.insert(0, os.path.dirname(os.path.abspath(__file__)))

import linesched  # noqa: E402
import gen  # noqa: E402
from valrace import code_objects  # noqa: E402


def main():
    from diameter.message import Message
    import diameter.message._base as base_mod
    import diameter.message.packer as packer_mod
    import diameter.message.avp.avp as avp_mod

    def wire(code, hbh, avps):
        body = b"".join(avps)
        return gen.rfc_header(1, 20 + len(body), 0x80, code, 4, hbh, hbh + 1) + body
    w1 = wire(272, 11, [gen.rfc_wire(263, 0, 0x40, b"sess;one"), gen.rfc_wire(264, 0, 0x40, b"host.one"),
                        gen.rfc_wire(296, 0, 0x40, b"realm.one"), gen.rfc_wire(1, 0, 0x40, b"user-one")])
    w2 = wire(999, 21, [gen.rfc_wire(263, 0, 0x40, b"sess;two-two"), gen.rfc_wire(1, 0, 0x40, b"u2"),
                        gen.rfc_wire(456, 0, 0x40, gen.rfc_wire(432, 0, 0x40, (7).to_bytes(4, "big")))])
    codes = code_objects(base_mod) + code_objects(packer_mod) + code_objects(avp_mod)
    fails, total = [], 0
    for plain in (True, False):
        def fresh():
            return Message.from_bytes(w1, plain_msg=plain), Message.from_bytes(w2, plain_msg=plain)
        m1, m2 = fresh()
        if m1.as_bytes() != w1 or m2.as_bytes() != w2:
            continue                       # (sequential exactness is judged by the main part of C02)
        count = [0]
        cs = set(codes)

        def tracer(frame, event, arg):
            if event == "call" and frame.f_code in cs:
                def local(fr, ev, ar):
                    if ev == "line":
                        count[0] += 1
                    return local
                return local
            return None
        m1, m2 = fresh()
        sys.settrace(tracer)
        try:
            m1.as_bytes()
        finally:
            sys.settrace(None)
        nlines = count[0]
        ks = sorted(set(list(range(0, min(nlines, 30))) + list(range(0, nlines, max(1, nlines // 40))) + [nlines]))
        for first, second, wa, wb, tag in ((0, 1, w1, w2, "m1 preempted"), (1, 0, w2, w1, "m2 preempted")):
            for k in ks:
                ms = fresh()
                a, b = ms[first], ms[second]
                res = linesched.run_threads([[a.as_bytes], [b.as_bytes]], [0] * k + [1] * 100000, codes, timeout=5.0)
                total += 1
                try:
                    got = (res[0][0], res[1][0])
                except Exception as e:  # noqa
                    got = (None, repr(e))
                if got != (wa, wb):
                    fails.append({"what": "two threads encoding different messages at the same time (the writer threads of two "
                                          "connections): as_bytes() of a message differs from its encoding when encoded alone",
                                  "kind": "race", "line": f"as_bytes x2 (plain_msg={plain}, {tag}), thread 0 preempted after {k} lines",
                                  "real": str([x.hex() if isinstance(x, bytes) else x for x in got])[:600],
                                  "expected": str([wa.hex(), wb.hex()])[:600]})
                    break
    # two threads searching one freshly decoded message at the same time (application threads sharing a received
    # message): each search returns what it returns when run alone
    grp = gen.rfc_wire(456, 0, 0x40, gen.rfc_wire(432, 0, 0x40, (7).to_bytes(4, "big")) + gen.rfc_wire(448, 0, 0x40, (9).to_bytes(4, "big"))
                       + gen.rfc_wire(432, 0, 0x40, (8).to_bytes(4, "big")))
    w3 = wire(272, 31, [gen.rfc_wire(263, 0, 0x40, b"sess;three"), grp, gen.rfc_wire(1, 0, 0x40, b"u3"), grp])
    paths = [((456, 0), (432, 0)), ((456, 0), (448, 0))]

    def show(avps):
        return [a.as_bytes().hex() for a in avps]
    for plain in (True, False):
        alone = [show(Message.from_bytes(w3, plain_msg=plain).find_avps(*p)) for p in paths]
        count = [0]
        cs = set(codes)

        def tracer2(frame, event, arg):
            if event == "call" and frame.f_code in cs:
                def local(fr, ev, ar):
                    if ev == "line":
                        count[0] += 1
                    return local
                return local
            return None
        m = Message.from_bytes(w3, plain_msg=plain)
        sys.settrace(tracer2)
        try:
            m.find_avps(*paths[0])
        finally:
            sys.settrace(None)
        nlines = count[0]
        ks = sorted(set(list(range(0, min(nlines, 60))) + list(range(0, nlines, max(1, nlines // 12))) + [nlines]))
        for pa, pb in ((0, 0), (0, 1)):
            broke = False
            for k in ks:
                m = Message.from_bytes(w3, plain_msg=plain)
                res = linesched.run_threads([[lambda: show(m.find_avps(*paths[pa]))], [lambda: show(m.find_avps(*paths[pb]))]],
                                            [0] * k + [1] * 100000, codes, timeout=5.0)
                total += 1
                try:
                    got = (res[0][0], res[1][0])
                except Exception as e:  # noqa
                    got = (None, repr(e))
                if got != (alone[pa], alone[pb]):
                    fails.append({"what": "two threads searching one freshly decoded message at the same time: find_avps returns "
                                          "something else than when the search runs alone",
                                  "kind": "race", "line": f"find_avps x2 (plain_msg={plain}, paths {paths[pa]} / {paths[pb]}), "
                                                          f"thread 0 preempted after {k} lines",
                                  "real": str(got)[:600], "expected": str((alone[pa], alone[pb]))[:600]})
                    broke = True
                    break
            if broke:
                break
    print(json.dumps({"schedules": total, "fails": fails}))
    os._exit(0)


if __name__ == "__main__":
    main()
