"""Virtual environment for running the *unmodified* diameter.node code as a
deterministic sequence of atomic events: fake time / socket / select / os /
random injected into the module namespaces, inert threads, synchronous reader
and writer pumps.  One call of `Env.io_iteration()` executes exactly one pass
of `Node._handle_connections`' loop body.
"""
from __future__ import annotations

import errno
import queue as _queue
import sys
import types

import realnode  # noqa: F401  (sets sys.path, disables logging)
from realnode import InertThread, OneShotQueue

import diameter.node.node as node_mod
import diameter.node.peer as peer_mod
import diameter.node._helpers as helpers_mod
import diameter.node.application as app_mod
from diameter.message import Message

import socket as real_socket
import threading as real_threading


class StopLoop(BaseException):
    pass


class VSocket:
    def __init__(self, env, kind="peer"):
        self.env = env
        self.kind = kind            # 'listen' | 'peer'
        self.fd = env.next_fd()
        self.closed = False
        self.inbox: list = []       # bytes | OSError | b"" (eof)
        self.sent = b""             # bytes accepted by the transport
        self.send_script: list = []  # per send(): int (max bytes) | OSError ; default accept all
        self.connect_outcome = "ok"  # 'ok' | 'inprogress' | OSError
        self.so_error = 0
        self.accept_queue: list = []
        self.linger_set = False
        self.writable = True
        env.sockets.append(self)

    # --- API used by the node
    def setblocking(self, flag):
        pass

    def setsockopt(self, level, opt, val):
        if opt == real_socket.SO_LINGER:
            self.linger_set = True

    def getsockopt(self, level, opt):
        return self.so_error

    def bind(self, addr):
        pass

    def listen(self, n):
        pass

    def fileno(self):
        return self.fd

    def getsockname(self):
        return ("10.0.0.1", 40000 + self.fd)

    def connect(self, addr):
        if self.closed:
            raise OSError(errno.EBADF, "bad file descriptor")          # (as the OS: a closed descriptor cannot be connected)
        self.env.log.append(("dial", addr[0], addr[1], self.env.now))
        self.peer_addr = addr
        o = self.connect_outcome
        if o == "ok":
            return
        if o == "inprogress":
            raise OSError(errno.EINPROGRESS, "in progress")
        raise o

    def accept(self):
        s = self.accept_queue.pop(0)
        return s, ("192.0.2.%d" % (s.fd % 250), 50000 + s.fd)

    _SOFT = (errno.EAGAIN, errno.EWOULDBLOCK, errno.EINTR, errno.ENOBUFS, getattr(errno, "ENOSR", -1))

    def getpeername(self):
        """as on a real TCP socket: the remote address while the connection exists (also after the peer's orderly close);
        ENOTCONN once the connection was reset / has failed, or before a non-blocking connect has completed"""
        if self.closed:
            raise OSError(errno.EBADF, "bad file descriptor")
        if getattr(self, "reset", False) or isinstance(self.connect_outcome, OSError) or \
                (self.connect_outcome == "inprogress" and not self.writable):
            raise OSError(errno.ENOTCONN, "transport endpoint is not connected")
        return getattr(self, "peer_addr", ("192.0.2.%d" % (self.fd % 250), 50000 + self.fd))

    def shutdown(self, how):
        if self.closed:
            raise OSError(errno.EBADF, "bad file descriptor")

    def settimeout(self, t):
        pass

    def gettimeout(self):
        return 0.0

    def recv(self, n):
        if not self.inbox:
            raise OSError(errno.EAGAIN, "would block")
        x = self.inbox.pop(0)
        if isinstance(x, OSError):
            if x.errno not in self._SOFT:
                self.reset = True
            raise x
        if len(x) > n:
            self.inbox.insert(0, x[n:])
            x = x[:n]
        return x

    def send(self, data):
        if self.closed:
            raise OSError(errno.EBADF, "closed")
        if self.send_script:
            x = self.send_script.pop(0)
            if isinstance(x, OSError):
                if x.errno not in self._SOFT:
                    self.reset = True
                raise x
            n = max(1, min(x, len(data)))
        else:
            n = len(data)
        self.sent += data[:n]
        return n

    def close(self):
        self.closed = True

    def __repr__(self):
        return f"<VSocket {self.fd}>"


class FakeTime:
    def __init__(self, env):
        self.env = env

    def time(self):
        # (`tick_at_read`: the wall clock moves on to the next second at the k-th reading -- construction at the end of a second)
        k = getattr(self.env, "tick_at_read", None)
        if k is not None:
            self.env.time_reads = getattr(self.env, "time_reads", 0) + 1
            if self.env.time_reads == k:
                self.env.now += 1
        return float(self.env.now)

    def monotonic(self):
        return float(self.env.now)

    perf_counter = monotonic

    def time_ns(self):
        return int(self.env.now) * 10 ** 9

    def sleep(self, dt):
        self.env.on_sleep(dt)


class FakeSelect:
    def __init__(self, env):
        self.env = env

    def select(self, r, w, x, timeout=None):
        env = self.env
        if env.select_budget <= 0:
            raise StopLoop()
        env.select_budget -= 1
        step = getattr(env, "select_step", 0)
        if step:
            env.now += step         # (a busy loop: each select() returns after `step` seconds, several passes within one call)
        hook = getattr(env, "during_select", None)
        if hook is not None:
            env.during_select = None
            hook()              # something another thread does while the loop sleeps in select()
        env.last_rlist = list(r)
        env.last_wlist = list(w)
        rr = [s for s in r if (s == env.pipe_r and env.pipe_buf) or
              (isinstance(s, VSocket) and ((s.kind == "listen" and s.accept_queue) or
                                           (s.kind == "peer" and s.inbox and s in env.want_read)))]
        ww = [s for s in w if isinstance(s, VSocket) and s.writable]
        return rr, ww, []


class FakeOS:
    def __init__(self, env):
        self.env = env

    def pipe(self):
        return self.env.pipe_r, self.env.pipe_w

    def write(self, fd, data):
        if fd == self.env.pipe_w:
            self.env.pipe_buf += data
            return len(data)
        raise OSError(errno.EBADF, "bad fd")

    def read(self, fd, n):
        d = self.env.pipe_buf[:n]
        self.env.pipe_buf = self.env.pipe_buf[n:]
        return d

    def urandom(self, n):
        self.env.conn_counter += 1
        return self.env.conn_counter.to_bytes(n, "big")


class FakeRandom:
    """random.randint / getrandbits as used by the id generators: scripted."""

    def __init__(self, env):
        self.env = env

    def randint(self, a, b):
        self.env.rand_counter += 1
        if b == 0x000fffff:
            return 7                                  # low 20 bits of the e2e start
        return 1000 * self.env.rand_counter           # hop-by-hop start of the k-th generator

    def getrandbits(self, n):
        return 5


class FakeSocketModule(types.ModuleType):
    def __init__(self, env):
        super().__init__("socket")
        self.env = env
        for k in ("AF_INET", "SOCK_STREAM", "SOL_SOCKET", "SO_REUSEADDR", "SO_LINGER", "SO_ERROR"):
            setattr(self, k, getattr(real_socket, k))
        self.error = OSError

    def socket(self, *a, **k):
        s = VSocket(self.env, "peer")
        if self.env.listen_pending > 0:
            self.env.listen_pending -= 1
            s.kind = "listen"
            return s
        plan = self.env.dial_plan.pop(0) if self.env.dial_plan else "ok"
        # ("fail": ECONNREFUSED; a suffix letter picks another errno an immediate connect() can fail with)
        dial_errno = {"failU": errno.ENETUNREACH, "failH": errno.EHOSTUNREACH, "failA": errno.EADDRNOTAVAIL,
                      "failT": errno.ETIMEDOUT, "failX": errno.EACCES}.get(plan, errno.ECONNREFUSED)
        s.connect_outcome = {"ok": "ok", "inp": "inprogress"}.get(plan) or OSError(dial_errno, "connect failed")
        if plan == "inp":
            s.writable = False          # becomes writable when the scenario says how the connect ended
        self.env.created.append(s)
        return s


class DeadlockError(BaseException):
    """a thread blocks on a non-reentrant lock that it holds itself: it would wait for ever (not an Exception: the
    library's handlers must not be able to "recover" from something that, in a real process, never returns)"""


class CheckedLock:
    """threading.Lock for the single-threaded simulation: mutual exclusion as usual, but a blocking acquire by the
    thread that already holds the lock raises DeadlockError instead of hanging the harness"""

    def __init__(self):
        self._l = real_threading.Lock()
        self._owner = None

    def acquire(self, blocking=True, timeout=-1):
        me = real_threading.get_ident()
        if self._l.acquire(False):
            self._owner = me
            return True
        if not blocking:
            return False
        if self._owner == me:
            if timeout is not None and timeout >= 0:
                return False            # a timed wait on one's own lock times out
            raise DeadlockError("blocking acquire of a lock held by the same thread")
        ok = self._l.acquire(True, timeout)
        if ok:
            self._owner = me
        return ok

    def release(self):
        self._owner = None
        self._l.release()

    def locked(self):
        return self._l.locked()

    def __enter__(self):
        self.acquire()
        return self

    def __exit__(self, *a):
        self.release()
        return False


class FakeEvent:
    """threading.Event for application.WaitingMessage / is_ready: wait() hands
    control to the scenario instead of blocking."""
    env = None

    def __init__(self):
        self._flag = False

    def set(self):
        self._flag = True

    def clear(self):
        self._flag = False

    def is_set(self):
        return self._flag

    def wait(self, timeout=None):
        if not self._flag and FakeEvent.env is not None:
            FakeEvent.env.on_wait(self, timeout)
        return self._flag


class Env:
    def __init__(self):
        self.now = 1_700_000_000
        self._fd = 10
        self.sockets: list[VSocket] = []
        self.created: list[VSocket] = []
        self.pipe_r, self.pipe_w = 3, 4
        self.pipe_buf = b""
        self.conn_counter = 0
        self.rand_counter = 0
        self.select_budget = 0
        self.want_read: set = set()
        self.dial_plan: list = []
        self.listen_pending = 0
        self.log: list = []
        self.wait_script: list = []
        self.crashes: list = []
        self.saved = {}

    def next_fd(self):
        self._fd += 1
        return self._fd

    # ---- installation into the module namespaces
    def install(self):
        realnode.install_inert_threads()
        InertThread.instances = []
        ft = FakeTime(self)
        for m in (node_mod, peer_mod, helpers_mod, app_mod):
            # (every module of the node package that uses the clock sees the virtual one; a module that does not import
            # `time` today is given it only if it has the name)
            if hasattr(m, "time"):
                self.saved[(m, "time")] = m.time
                m.time = ft
        self.saved[(node_mod, "select")] = node_mod.select
        node_mod.select = FakeSelect(self)
        self.saved[(node_mod, "socket")] = node_mod.socket
        node_mod.socket = FakeSocketModule(self)
        fo = FakeOS(self)
        for m in (node_mod, peer_mod):
            self.saved[(m, "os")] = m.os
            m.os = fo
        self.saved[(helpers_mod, "random")] = helpers_mod.random
        helpers_mod.random = FakeRandom(self)
        # the node's and the connections' locks: a thread that blocks on a lock it holds itself would wait for ever
        for m in (node_mod, peer_mod):
            lt = types.ModuleType("threading")
            for k in dir(real_threading):
                if not k.startswith("__"):
                    setattr(lt, k, getattr(real_threading, k))
            lt.Lock = CheckedLock
            self.saved[(m, "threading")] = m.threading
            m.threading = lt
        fake_threading = types.ModuleType("threading")
        fake_threading.Event = FakeEvent
        fake_threading.Lock = real_threading.Lock
        fake_threading.Thread = SyncThread
        self.saved[(app_mod, "threading")] = app_mod.threading
        app_mod.threading = fake_threading
        self.saved[(app_mod, "queue")] = app_mod.queue
        fake_queue = types.ModuleType("queue")
        fake_queue.Queue = NBQueue
        fake_queue.Empty = _queue.Empty
        fake_queue.Full = _queue.Full
        app_mod.queue = fake_queue
        FakeEvent.env = self
        SyncThread.env = self

    def uninstall(self):
        for (m, k), v in self.saved.items():
            setattr(m, k, v)
        FakeEvent.env = None

    # ---- hooks
    def on_sleep(self, dt):
        pass

    def on_wait(self, ev, timeout):
        pass


class NBQueue:
    """queue.Queue whose blocking operations decide at once (virtual time):
    put on a full queue raises Full, get on an empty one raises Empty."""

    def __init__(self, maxsize=0):
        self.maxsize = maxsize
        self.items = []

    def put(self, x, block=True, timeout=None):
        if block and timeout is not None and timeout < 0:
            raise ValueError("'timeout' must be a non-negative number")        # as queue.Queue does
        if self.maxsize > 0 and len(self.items) >= self.maxsize:
            raise _queue.Full()
        self.items.append(x)

    def get(self, block=True, timeout=None):
        if block and timeout is not None and timeout < 0:
            raise ValueError("'timeout' must be a non-negative number")
        if not self.items:
            raise _queue.Empty()
        return self.items.pop(0)

    def get_nowait(self):
        return self.get(False)

    def qsize(self):
        return len(self.items)

    def empty(self):
        return not self.items


class SyncThread:
    """threading.Thread used by ThreadingApplication to run handlers: the
    scenario decides when the handler body runs (deferred list)."""
    env = None

    def __init__(self, group=None, target=None, name=None, args=(), kwargs=None, *, daemon=None):
        self.target = target
        self.args = args
        self.kwargs = kwargs or {}

    def start(self):
        SyncThread.env.deferred_handlers.append(self)

    def run_now(self):
        return self.target(*self.args, **self.kwargs)
