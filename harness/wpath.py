"""The real write path of a connection under a line-level scheduler.

Actors: queueing threads (each step: `conn.add_out_msg(m)`), the connection's
writer (`PeerConnection.work_write_queue`) and the node's I/O loop
(`Node._handle_connections`), the latter two re-compiled from their current
source into generators (linesched.stepper) and paused before every source line
that touches shared state (write queue, write buffer, write lock, interrupt
pipe, socket).  Lines that only touch locals run together with the shared-state
line before them.
"""
from __future__ import annotations

import ast
import errno
import inspect
import textwrap

import linesched
import nodegen
import sim as simmod
from vnode import StopLoop

import diameter.node.node as node_mod
import diameter.node.peer as peer_mod
from diameter.message import Message, Avp
from diameter.message.constants import AVP_ORIGIN_HOST


# ----------------------------------------------------------- classification
def _stmt_header(node) -> str:
    if isinstance(node, ast.If) or isinstance(node, ast.While):
        return "if " + ast.unparse(node.test)
    if isinstance(node, ast.With):
        return "with " + ", ".join(ast.unparse(i.context_expr) for i in node.items)
    if isinstance(node, (ast.Try, ast.For)):
        return ""
    return ast.unparse(node)


def classify_writer(h: str):
    if "_write_msg_queue.get" in h:
        return "get"
    if h.startswith("with ") and "write_lock" in h:
        return "lock"
    if "_write_buffer +=" in h:
        return "append"
    if "demand_attention()" in h:
        return "signal"
    if "_write_buffer" in h:
        lhs = h.split("=", 1)[0]
        if "_write_buffer" in lhs:
            return "store"
        if "as_bytes" in h:
            return "readAppend"
        return "unknown"
    if "write_lock" in h:
        return "unknown"
    import re
    if re.match(r"self\.\w+(\[[^\]]*\])?\s*(=|\+=|-=)[^=]", h):
        return "unknown"        # any other store to an attribute of the connection is shared state too
    return None


def classify_loop(h: str):
    if h.startswith("if ") and "len(conn.write_buffer) == 0" in h:
        return "testClosing" if "PEER_CLOSING" in h else "testEmpty"
    if ".send(" in h and "write_buffer" in h or "sctp_send(" in h:
        return "send"
    if h.startswith("with ") and "write_lock" in h:
        return "lock"
    if "remove_out_bytes(" in h:
        return "remove"
    if "conn.close(" in h:
        return "close"
    if "write_buffer" in h:
        return "readLen"
    if "write_lock" in h:
        return "unknown"
    return None


def line_kinds(func, classify, within=None) -> dict:
    """lineno (relative to the function source) -> kind, for statements inside
    the sub-tree selected by `within(node)` (default: whole function)"""
    f = getattr(func, "__func__", func)
    tree = ast.parse(textwrap.dedent(inspect.getsource(f)))
    fn = tree.body[0]
    roots = [fn]
    if within is not None:
        roots = [n for n in ast.walk(fn) if within(n)]
    kinds = {}
    for r in roots:
        for n in ast.walk(r):
            if isinstance(n, ast.stmt) and n is not fn:
                k = classify(_stmt_header(n))
                if k:
                    kinds[n.lineno] = k
    return kinds


def _is_write_loop(n) -> bool:
    return isinstance(n, ast.For) and isinstance(n.iter, ast.Name) and n.iter.id == "ready_w"


def select_line(func) -> int:
    f = getattr(func, "__func__", func)
    tree = ast.parse(textwrap.dedent(inspect.getsource(f)))
    for n in ast.walk(tree):
        if isinstance(n, ast.stmt) and not isinstance(n, (ast.FunctionDef, ast.While, ast.For, ast.If, ast.Try, ast.With)) \
                and "select.select(" in ast.unparse(n):
            return n.lineno
    raise RuntimeError("select line not found")


class Broken(Message):
    """a message that cannot be encoded (an AVP without a payload)"""

    def __init__(self):
        super().__init__()
        self.header.command_code = 280
        a = Avp.new(AVP_ORIGIN_HOST)
        a.payload = None
        self.append_avp(a)


def broken_typed():
    """an unencodable message of a typed command class (a value outside its AVP type's domain): also reading its `avps`
    raises; an instance of `Broken` for the harness"""
    from diameter.message.commands import DeviceWatchdogRequest

    class BrokenTyped(DeviceWatchdogRequest, Broken):
        def __init__(self):
            DeviceWatchdogRequest.__init__(self)
            self.origin_host = b"node.local"
            self.origin_realm = b"realm.local"
            self.origin_state_id = 2 ** 40
    return BrokenTyped()


def broken_header():
    """an unencodable message whose *header* is at fault (an identifier that is not an integer: it cannot be packed -- nor
    formatted as hex by whatever wants to print it); an instance of `Broken` for the harness"""
    class BrokenHeader(Broken):
        def __init__(self):
            Message.__init__(self)
            self.header.command_code = 280
            self.header.end_to_end_identifier = "4098"
    return BrokenHeader()


def make_other(i: int) -> Message:
    """an application request (not a watchdog message)"""
    return Message.from_bytes(simmod.build_msg(nodegen.ccr(7100 + i, 8100 + i, "node.local")))


def make_message(i: int, size: int = 0) -> Message:
    m = Message.from_bytes(simmod.build_msg(nodegen.dwr(7000 + i, 8000 + i, "node.local")))
    if size:
        a = Avp.new(AVP_ORIGIN_HOST)
        a.value = ("x" * size).encode()
        m.append_avp(a)
    return m


_caches: dict = {False: {}, True: {}}
FINE = False        # search mode: `buf += f()` lines have a second scheduling point between the load of buf and the call


def steppers():
    """generator versions of the two methods, compiled once per process from the current source"""
    _cache = _caches[FINE]
    if not _cache:
        _cache["w"] = linesched.stepper(peer_mod.PeerConnection.work_write_queue, "PeerConnection", split_aug=FINE)
        _cache["l"] = linesched.stepper(node_mod.Node._handle_connections, "Node", split_aug=FINE)
        _cache["wk"] = line_kinds(peer_mod.PeerConnection.work_write_queue, classify_writer)
        _cache["lk"] = line_kinds(node_mod.Node._handle_connections, classify_loop, _is_write_loop)
        _cache["sel"] = select_line(node_mod.Node._handle_connections)
    return _cache


class WouldBlockForever(BaseException):
    """a blocking acquire of a lock that is held while every actor is a generator of this one thread: in the real node
    the caller would sleep until the holder releases -- here that is a scheduling decision, not a wait"""


class CoopLock:
    """threading.Lock stand-in for the stepped actors: never blocks the (single) thread of the harness"""

    def __init__(self):
        self._held = False

    def acquire(self, blocking=True, timeout=-1):
        if not self._held:
            self._held = True
            return True
        if not blocking:
            return False
        raise WouldBlockForever()

    def release(self):
        if not self._held:
            raise RuntimeError("release unlocked lock")
        self._held = False

    def locked(self):
        return self._held

    def __enter__(self):
        self.acquire()
        return self

    def __exit__(self, *a):
        self.release()
        return False


class PollQueue:
    """write queue stub: get() never blocks (the harness only steps the writer when an item is there, or lets its poll time
    out).  The *order* in which items come out is that of the queue object the connection was built with (its non-blocking
    `_put` / `_get` / `_qsize`), so that a queue other than a FIFO shows."""

    def __init__(self, orig=None):
        import queue
        self.orig = orig if isinstance(orig, queue.Queue) and all(hasattr(orig, a) for a in ("_put", "_get", "_qsize")) else None
        self.fifo = []

    @property
    def items(self):
        return list(range(self.orig._qsize())) if self.orig is not None else self.fifo

    def put(self, x, *a, **k):
        if self.orig is not None:
            self.orig._put(x)
        else:
            self.fifo.append(x)

    def get(self, *a, **k):
        import queue
        if self.orig is not None:
            if self.orig._qsize():
                return self.orig._get()
        elif self.fifo:
            return self.fifo.pop(0)
        raise queue.Empty()

    def get_nowait(self):
        return self.get(False)

    def qsize(self):
        return len(self.items)

    def empty(self):
        return not self.items


class World:
    """one ready connection of a real node in the virtual environment"""

    def __init__(self):
        c = steppers()
        self.sim = simmod.Sim(nodegen.CONFIGS["basic"][5:])
        self.sim.event("start")
        self.sim.event("acc")
        self.sim.event("rx 0 " + nodegen.cer("peer1.x", "4", 1, 2))
        self.conn = self.sim.conns[0]
        self.sock = self.sim.conn_sock[self.conn]
        self.node = self.sim.node
        self.env = self.sim.env
        assert self.conn.state == peer_mod.PEER_READY
        self.base = len(self.sock.sent)
        # (the simulator has swapped the hand-off queue for a FIFO stub by now: a throw-away connection object tells which
        # kind of queue the library itself builds)
        try:
            import realnode
            probe = peer_mod.PeerConnection("127.0.0.1", 3868, peer_mod.PEER_RECV, realnode.devnull_fd())
            fresh = type(probe._write_msg_queue)()
        except Exception:  # noqa
            fresh = None
        self.conn._write_msg_queue = PollQueue(fresh)
        self.poll_timeouts = 0        # how many times the writer's poll of an empty queue may still time out in this run
        self.used_timeout = False
        self.conn.write_lock = CoopLock()       # (explicit .acquire() calls must not put the harness thread to sleep)
        self.deadlock = None
        self.env.select_budget = 10 ** 9
        self.env.pipe_buf = b""
        self.wgen = c["w"](self.conn, self.conn._write_thread)
        self.lgen = c["l"](self.node, self.node._connection_thread)
        self.wk, self.lk, self.sel = c["wk"], c["lk"], c["sel"]
        self.wpos = None          # kind of the line the writer is paused before (None: not started / idle at get)
        self.lpos = None
        self.lock_owner = None
        self.crash = None
        self.expect = b""
        self.trace = []           # (actor, kind, locked_after)
        self._advance_w()
        self._advance_l(first=True)

    def close(self):
        self.sim.close()

    # ---- writer
    def _advance_w(self):
        """run the writer to its next shared-state line"""
        while True:
            try:
                y = next(self.wgen)
            except StopIteration:
                self.wpos = "dead"
                return
            except WouldBlockForever:
                self.deadlock = "the writer waits for the write lock in a blocking acquire() outside a `with`"
                self.wpos = "dead"
                return
            except Exception as e:  # noqa
                self.crash = f"writer {type(e).__name__}: {e}"
                self.wpos = "dead"
                return
            if y[0] == "blocked":
                self.wpos = "blocked"
                return
            k = self.wk.get(y[1])
            if k:
                self.wpos = k
                return

    def w_enabled(self):
        if self.wpos in ("dead", None):
            return False
        if self.wpos == "get":
            return bool(self.conn._write_msg_queue.items) or self.poll_timeouts > 0
        if self.wpos == "blocked":
            return not self.conn.write_lock.locked()
        return True

    def step_w(self):
        if self.wpos == "get" and not self.conn._write_msg_queue.items:
            self.poll_timeouts -= 1          # the writer's poll of the empty queue times out
            self.used_timeout = True
        kind = self.wpos
        was_locked = self.conn.write_lock.locked()
        self._advance_w()
        now_locked = self.conn.write_lock.locked()
        if kind == "blocked":
            kind = "lock" if now_locked and self.wpos != "blocked" else "blocked"
        if now_locked and not was_locked:
            self.lock_owner = "w"
        if not now_locked and self.lock_owner == "w":
            self.lock_owner = None
        self.trace.append(("w", kind, self.lock_owner == "w"))
        return kind

    # ---- I/O loop
    def _advance_l(self, first=False):
        while True:
            try:
                y = next(self.lgen)
            except (StopIteration, StopLoop):
                self.lpos = "dead"
                return
            except WouldBlockForever:
                self.deadlock = "the I/O loop waits for the write lock in a blocking acquire() while the lock is held"
                self.lpos = "dead"
                return
            except Exception as e:  # noqa
                self.crash = f"io-loop {type(e).__name__}: {e}"
                self.lpos = "dead"
                return
            if y[0] == "blocked":
                self.lpos = "blocked"
                return
            if y[1] == self.sel:
                self.lpos = "select"
                return
            k = self.lk.get(y[1])
            if k:
                self.lpos = k
                return

    def l_enabled(self):
        if self.lpos in ("dead", None):
            return False
        if self.lpos == "select":
            # blocked in select() with the lists computed at the end of the previous iteration
            wl = self.lgen.gi_frame.f_locals.get("w_list", []) if self.lgen.gi_frame is not None else []
            return bool(self.env.pipe_buf) or (self.sock in wl and self.sock.writable)
        if self.lpos == "blocked":
            return not self.conn.write_lock.locked()
        return True

    def step_l(self, outcome="all"):
        kind = "begin" if self.lpos == "select" else self.lpos
        if kind == "send":
            if outcome == "all":
                self.sock.send_script = []
            elif isinstance(outcome, int):
                # a partial write: the socket's buffer is full -- a further send() in the same round would block
                # (the script is set anew for every round's send; code that sends once per round never sees the second entry)
                self.sock.send_script = [outcome, OSError(errno.EAGAIN, "soft")]
            else:
                self.sock.send_script = [OSError({"soft": errno.EAGAIN, "intr": errno.EINTR, "nobufs": errno.ENOBUFS,
                                                  "hard": errno.EPIPE}[outcome], outcome)]
        was_locked = self.conn.write_lock.locked()
        self._advance_l()
        now_locked = self.conn.write_lock.locked()
        if kind == "blocked":
            kind = "lock" if now_locked and self.lpos != "blocked" else "blocked"
        if now_locked and not was_locked:
            self.lock_owner = "l"
        if not now_locked and self.lock_owner == "l":
            self.lock_owner = None
        self.trace.append(("l", kind, self.lock_owner == "l"))
        return kind

    # ---- queueing
    def put(self, m):
        self.conn.add_out_msg(m)
        try:
            self.expect += m.as_bytes()
        except Exception:  # noqa
            pass

    def sent(self) -> bytes:
        return self.sock.sent[self.base:]

    def drain(self, limit=400):
        """everything runs to completion, every send accepts everything"""
        for _ in range(limit):
            if self.w_enabled():
                self.step_w()
            elif self.l_enabled():
                self.step_l("all")
            else:
                return True
        return False


# ------------------------------------------------------------- extraction
def observe_prog() -> dict:
    """the shared-state lines each actor executes, per outcome (the `Prog` of Model/WritePath.lean)"""
    out = {}

    def run_w(msg):
        w = World()
        try:
            w.put(msg)
            mark = len(w.trace)
            while w.w_enabled():
                w.step_w()
            return [(k, lk) for a, k, lk in w.trace[mark:] if a == "w"]
        finally:
            w.close()
    out["wOk"] = run_w(make_message(1))
    out["wFail"] = run_w(Broken())

    def run_l(outcomes):
        """I/O-loop iterations until every outcome has been consumed by a send(); the
        shared-state lines of the last iteration"""
        w = World()
        try:
            w.put(make_message(1))
            while w.w_enabled():
                w.step_w()
            atoms = []
            todo = list(outcomes)
            for _ in range(10):
                if not todo or not (w.lpos == "select" and w.l_enabled()):
                    break
                mark = len(w.trace)
                w.step_l(todo[0])
                while w.lpos not in ("select", "dead") and w.l_enabled():
                    w.step_l(todo[0])
                atoms = [(k, lk) for a, k, lk in w.trace[mark:] if a == "l"]
                if any(k == "send" for k, _ in atoms):
                    todo.pop(0)
            return atoms, w.crash
        finally:
            w.close()
    ok, _ = run_l([3])
    i = next((j for j, (k, _) in enumerate(ok) if k == "send"), len(ok) - 1)
    out["lPrefix"], out["lOk"] = ok[:i + 1], ok[i + 1:]
    soft, crash = run_l([3, "soft"])
    out["lSoft"] = soft[i + 1:]
    hard, _ = run_l([3, "hard"])
    out["lHard"] = hard[i + 1:]
    out["notes"] = []
    if soft[:i + 1] != ok[:i + 1] or hard[:i + 1] != ok[:i + 1]:
        out["notes"].append("the I/O loop's lines before send() differ between outcomes")
    soft0, crash0 = run_l(["soft"])
    if crash0:
        out["notes"].append("I/O loop crashes on a soft error before any successful send: " + crash0)
        out["lSoft"] = out["lSoft"] or [("unknown", False)]
    return out
