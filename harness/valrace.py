"""Two reader threads validating requests at the same time (part of C08, run in a fresh interpreter).

`Node._receive_message` runs on one reader thread per connection, so `validate_message_avps` — the function that
decides between "hand to the application" and "answer 5005 with these Failed-AVPs" — is entered concurrently by the
connections of a node.  Whatever it reports must be what it reports when called alone.  This script runs the real
function (unmodified, real threads gated line by line through sys.settrace on every code object of
diameter/node/_helpers.py) for two requests of one command under every single-preemption schedule "thread 0 runs k
lines, thread 1 runs its whole call, thread 0 finishes", each schedule starting from freshly loaded module state (the
first requests of a command since the process started), and compares the missing-AVP lists with the sequential ones.

Prints one JSON document: {"schedules": n, "fails": [...]}.
"""
from __future__ import annotations

import importlib
import inspect
import json
import os
import sys
import types

sys.path.insert(0, os.environ.get("DV_REPO_SRC", "/repo/src"))
sys.path.insert(0, os.path.dirname(os.path.abspath(__file__)))

import linesched  # noqa: E402


def code_objects(mod):
    out = []
    seen = set()

    def walk(co):
        if co in seen:
            return
        seen.add(co)
        out.append(co)
        for c in co.co_consts:
            if isinstance(c, types.CodeType):
                walk(c)
    for v in vars(mod).values():
        if inspect.isfunction(v) and v.__module__ == mod.__name__:
            walk(v.__code__)
        elif inspect.isclass(v) and v.__module__ == mod.__name__:
            for m in vars(v).values():
                f = m.fget if isinstance(m, property) else getattr(m, "__func__", m)
                if inspect.isfunction(f):
                    walk(f.__code__)
    return out


def summary(avps):
    return sorted((a.code, a.vendor_id) for a in avps)


def main():
    from diameter.message import constants
    from diameter.message.commands import CreditControlRequest, AccountingRequest, ReAuthRequest
    import diameter.node._helpers as helpers

    def ccr(drop):
        m = CreditControlRequest()
        m.session_id = "s;1"; m.origin_host = b"peer1.x"; m.origin_realm = b"realm.local"; m.destination_realm = b"realm.local"
        m.auth_application_id = 4; m.service_context_id = "x"; m.cc_request_type = 1; m.cc_request_number = 0
        for d in drop:
            setattr(m, d, None)
        return m

    def acr(drop):
        m = AccountingRequest()
        m.session_id = "s;1"; m.origin_host = b"peer1.x"; m.origin_realm = b"realm.local"; m.destination_realm = b"realm.local"
        m.accounting_record_type = 1; m.accounting_record_number = 0
        for d in drop:
            setattr(m, d, None)
        return m

    def rar(drop):
        m = ReAuthRequest()
        m.session_id = "s;1"; m.origin_host = b"peer1.x"; m.origin_realm = b"realm.local"; m.destination_realm = b"realm.local"
        m.destination_host = b"node.local"; m.auth_application_id = 4; m.re_auth_request_type = 0
        for d in drop:
            setattr(m, d, None)
        return m

    pairs = [
        ("CCR", ccr(()), ccr(("cc_request_number",))),
        ("CCR", ccr(("session_id",)), ccr(("cc_request_type", "cc_request_number"))),
        ("ACR", acr(()), acr(("accounting_record_number",))),
        ("RAR", rar(()), rar(("re_auth_request_type", "session_id"))),
    ]
    fails, total = [], 0
    for name, a, b in pairs:
        importlib.reload(helpers)
        want_a, want_b = summary(helpers.validate_message_avps(a)), summary(helpers.validate_message_avps(b))
        # how many lines does a lone call run (from fresh module state)?
        importlib.reload(helpers)
        codes = code_objects(helpers)
        count = [0]

        def tracer(frame, event, arg):
            if event == "call" and frame.f_code in set(codes):
                def local(fr, ev, ar):
                    if ev == "line":
                        count[0] += 1
                    return local
                return local
            return None
        sys.settrace(tracer)
        try:
            helpers.validate_message_avps(a)
        finally:
            sys.settrace(None)
        nlines = count[0]
        ks = sorted(set(list(range(0, min(nlines, 40))) + list(range(0, nlines, max(1, nlines // 40))) + [nlines]))
        for first, second, w1, w2, tag in ((a, b, want_a, want_b, "complete first"), (b, a, want_b, want_a, "incomplete first")):
            for k in ks:
                importlib.reload(helpers)
                codes = code_objects(helpers)
                f = helpers.validate_message_avps
                res = linesched.run_threads([[lambda f=f, m=first: f(m)], [lambda f=f, m=second: f(m)]],
                                            [0] * k + [1] * 100000, codes, timeout=5.0)
                total += 1
                try:
                    got = (summary(res[0][0]), summary(res[1][0]))
                except Exception as e:  # noqa
                    got = ("?", repr(e))
                if got != (w1, w2):
                    fails.append({"what": "two connections' reader threads validating requests of one command at the same time: "
                                          "the missing required AVPs reported differ from what each call reports alone "
                                          "(a request lacking required AVPs would reach the application, or the 5005 answer "
                                          "would list the wrong Failed-AVPs)",
                                  "kind": "race", "line": f"validate_message_avps x2 ({name}, {tag}), thread 0 preempted after {k} lines",
                                  "real": str(got), "expected": str((w1, w2))})
                    break
    print(json.dumps({"schedules": total, "fails": fails}))
    os._exit(0)


if __name__ == "__main__":
    main()
