"""C19 — per-transaction and per-connection state is released; nothing grows with use."""
from __future__ import annotations

import random

from common import Result, run_driver
import nodegen
import nodecheck
from nodecheck import Obs, kv, run_real

PROP = "C19"
MODULES = ["DV.Properties.C19", "DV.Properties.C19Hist", "DV.Properties.ConfigTie", "DV.Properties.C19Release"]
KEEP = {"SIZE": None, "RES": None}

BASE_OUT = ("NODE host=node.local;realm=realm.local;idle=5;dwa=3;cer=3;cea=3;rq=4;"
            "peer:peer1.x,realm.local,0,0,30,1,1,-,-,-,-;peer:peer2.x,realm.local,1,1,2,1,0,-,-,-,-;app:4,1,0,b,0,0+1,-")
BASE_IN = BASE_OUT.replace("peer:peer2.x,realm.local,1,1,2,1,0", "peer:peer2.x,realm.local,0,0,2,1,0")
OUT_KINDS = ("dial_refused", "dial_async_fail", "dial_rejected", "dial_established")
BASE_NOADDR = BASE_OUT.replace("peer:peer2.x,realm.local,1,1,2,1,0", "peer:peer2.x,realm.local,1,1,2,0,0")   # persistent, no address
BASE_MR = ("NODE host=node.local;realm=realm.local;idle=5;dwa=3;cer=3;cea=3;rq=4;"
           "peer:peer1.x,realm.local,0,0,30,1,0,-,-,-,-;peer:peer2.x,other.realm,0,0,2,1,0,-,-,-,-;peer:peer3.x,third.realm,0,0,30,1,1,-,-,-,-;"
           "app:4,1,0,b,0,0+1,extra.realm")
BASE_T = BASE_IN.replace("app:4,1,0,b,0,0+1,-", "app:4,1,0,t,0,0+1,-")          # the same with a threading application
T_KINDS = ("thread_req", "thread_req_raise")      # (a request whose handler returns no answer is not a completed transaction)


def kinds():
    """name -> function(N) -> scenario; every history ends with all requests answered and all connections ended."""
    h = [100000]

    def n():
        h[0] += 1
        return h[0]

    def inbound_req(N):
        evs = ["start fail", "acc", "rx 0 " + nodegen.cer("peer1.x", "4", n(), n())]
        for i in range(N):
            evs += ["rx 0 " + nodegen.ccr(n(), n(), "peer1.x"), f"ans 0 {i} 2001"]
        return evs + ["eof 0", "tick"]

    def inbound_req_norc(N):
        # answers without a Result-Code (3GPP answers carry Experimental-Result only): send_answer raises for a known peer
        evs = ["start fail", "acc", "rx 0 " + nodegen.cer("peer1.x", "4", n(), n())]
        for i in range(N):
            evs += ["rx 0 " + nodegen.ccr(n(), n(), "peer1.x"), f"ans 0 {i} -"]
        return evs + ["eof 0", "tick"]

    def inbound_req_no_origin(N):
        # requests without Origin-Host (answered 5005 by the node itself), and with an empty one (delivered and answered)
        evs = ["start fail", "acc", "rx 0 " + nodegen.cer("peer1.x", "4", n(), n())]
        for i in range(N):
            evs += ["rx 0 " + nodegen.ccr(n(), n(), "peer1.x", drop=("oh",)), "rx 0 " + nodegen.ccr(n(), n(), ""), f"ans 0 {i} 2001"]
        return evs + ["eof 0", "tick"]

    def cer_no_origin(N):
        # connections whose first message is a CER without Origin-Host (5005), then nothing more
        evs = ["start fail"]
        for i in range(N):
            evs += ["acc", f"rx {i} " + nodegen.cer("", "4", n(), n()), f"eof {i}", "tick"]
        return evs + ["tick"]

    def hard_write_error(N):
        # a connection whose pending answer hits a hard socket error
        evs = ["start fail"]
        for i in range(N):
            evs += ["acc", f"rx {i} " + nodegen.cer("peer1.x", "4", n(), n()), f"wr {i} hard",
                    f"rx {i} " + nodegen.dwr(n(), n(), "peer1.x"), "tick"]
        return evs + ["tick"]

    def rejected_req(N):
        evs = ["start fail", "acc", "rx 0 " + nodegen.cer("peer1.x", "4", n(), n())]
        for i in range(N):
            evs += ["rx 0 " + nodegen.ccr(n(), n(), "peer1.x", app=77), "rx 0 " + nodegen.ccr(n(), n(), "peer1.x", drop=("sc",)),
                    "rx 0 " + nodegen.ccr(n(), n(), "peer1.x", realm="foreign.realm"), "rx 0 " + nodegen.unk(n(), n(), "peer1.x").replace(":4:", ":77:", 1)]
        return evs + ["eof 0", "tick"]

    def dup_reject(N):
        evs = ["start fail", "acc", "rx 0 " + nodegen.cer("peer1.x", "4", n(), n())]
        for i in range(N):
            e = n()
            evs += ["rx 0 " + nodegen.ccr(n(), e, "peer1.x"), f"ans 0 {i} 2001", "rx 0 " + nodegen.ccr(n(), e, "peer1.x", flags=208)]
        return evs + ["eof 0", "tick"]

    def dwr_in(N):
        evs = ["start fail", "acc", "rx 0 " + nodegen.cer("peer1.x", "4", n(), n())]
        for i in range(N):
            evs += ["adv 1", "rx 0 " + nodegen.dwr(n(), n(), "peer1.x")]
        return evs + ["eof 0", "tick"]

    def dwr_in_sparse(N):
        # one watchdog exchange per connection, 400 s apart: the statistics windows (1000 s) forget what has left them
        evs = ["start fail"]
        for i in range(N):
            evs += ["acc", f"rx {i} " + nodegen.cer("peer1.x", "4", n(), n()), f"rx {i} " + nodegen.dwr(n(), n(), "peer1.x"),
                    f"rx {i} " + nodegen.ccr(n(), n(), "peer1.x"), f"ans 0 {i} 2001", f"eof {i}", "adv 400"]
        return evs + ["tick"]

    def dwr_out(N):
        evs = ["start fail", "acc", "rx 0 " + nodegen.cer("peer1.x", "4", n(), n())]
        hb, e = 2000, 268435463
        for i in range(N):
            hb += 1
            e += 1
            evs += ["adv 6", "rx 0 " + nodegen.dwa(hb, e, "peer1.x")]
        return evs + ["eof 0", "tick"]

    def outbound_req(N):
        evs = ["start fail", "acc", "rx 0 " + nodegen.cer("peer1.x", "4", n(), n())]
        hb, e = 2000, 268435463
        for i in range(N):
            hb += 1
            e += 1
            evs += [f"req 0 {nodegen.ccr(0, 0, 'node.local')} 5 rx_0_{nodegen.cca(hb, e, 'peer1.x')}"]
        return evs + ["eof 0", "tick"]

    def outbound_req_timeout(N):
        # the caller gives up after 1 s; the answer arrives afterwards (and is nobody's any more)
        evs = ["start fail", "acc", "rx 0 " + nodegen.cer("peer1.x", "4", n(), n())]
        hb, e = 2000, 268435463
        for i in range(N):
            hb += 1
            e += 1
            evs += [f"req 0 {nodegen.ccr(0, 0, 'node.local')} 1", "rx 0 " + nodegen.cca(hb, e, "peer1.x")]
        return evs + ["eof 0", "tick"]

    def conn_ok(N):
        evs = ["start fail"]
        for i in range(N):
            evs += ["acc", f"rx {i} " + nodegen.cer("peer1.x", "4", n(), n()), f"eof {i}"]
        return evs + ["tick"]

    def inbound_req_raise(N):
        # the application's handler raises: the node answers 5012 itself
        evs = ["start fail", "acc", "rx 0 " + nodegen.cer("peer1.x", "4", n(), n()), "outcome 0 raise"]
        for i in range(N):
            evs += ["rx 0 " + nodegen.ccr(n(), n(), "peer1.x")]
        return evs + ["eof 0", "tick"]

    def _thread(N, outcome):
        evs = ["start fail", "acc", "rx 0 " + nodegen.cer("peer1.x", "4", n(), n()), f"outcome 0 {outcome}"]
        for i in range(N):
            evs += ["rx 0 " + nodegen.ccr(n(), n(), "peer1.x"), "handler 0"]
        return evs + ["eof 0", "tick"]

    def thread_req(N):
        return _thread(N, "answer")

    def thread_req_raise(N):
        return _thread(N, "raise")

    def thread_req_none(N):
        return _thread(N, "none")

    def conn_req_answered(N):
        # N connections, each carrying one request that the application answers before the connection ends
        evs = ["start fail"]
        for i in range(N):
            evs += ["acc", f"rx {i} " + nodegen.cer("peer1.x", "4", n(), n()), f"rx {i} " + nodegen.ccr(n(), n(), "peer1.x"),
                    f"ans 0 {i} 2001", f"eof {i}"]
        return evs + ["tick"]

    def conn_node_closes(N):
        evs = ["start fail"]
        for i in range(N):
            evs += ["acc", f"rx {i} " + nodegen.cer("peer1.x", "4", n(), n()), f"rx {i} " + nodegen.dpr(n(), n(), "peer1.x"), f"eof {i}"]
        return evs + ["tick"]

    def conn_unknown(N):
        evs = ["start fail"]
        for i in range(N):
            evs += ["acc", f"rx {i} " + nodegen.cer("stranger.x", "4", n(), n())]
        return evs + ["tick"]

    def conn_cer_rejected(N):
        # a configured peer whose CER has nothing in common with the node: answered 5010, the peer then hangs up / the CER
        # timer closes the connection
        evs = ["start fail"]
        for i in range(N):
            evs += ["acc", f"rx {i} " + nodegen.cer("peer1.x", "99", n(), n()), f"eof {i}" if i % 2 == 0 else "adv 4"]
        return evs + ["tick"]

    def pair_write_fail(N):
        # N pairs of connections, both of a pair failing on a write in the same pass of the I/O loop (two notices at once)
        evs = ["start fail"]
        for i in range(N):
            a, b = 2 * i, 2 * i + 1
            evs += ["acc", f"rx {a} " + nodegen.cer("peer1.x", "4", n(), n()), "acc", f"rx {b} " + nodegen.cer("peer2.x", "4", n(), n()),
                    f"wr {a} hard", f"wr {b} hard", f"rxm {a}:" + nodegen.dwr(n(), n(), "peer1.x") + f" {b}:" + nodegen.dwr(n(), n(), "peer2.x"),
                    "tick", "tick"]
        return evs + ["tick"]

    def conn_timeout(N):
        evs = ["start fail"]
        for i in range(N):
            evs += ["acc", "adv 4"]
        return evs + ["tick"]

    def conn_already(N):
        evs = ["start fail", "acc", "rx 0 " + nodegen.cer("peer1.x", "4", n(), n())]
        for i in range(N):
            evs += ["acc", f"rx {i + 1} " + nodegen.cer("peer1.x", "4", n(), n()), f"eof {i + 1}"]
        return evs + ["eof 0", "tick"]

    def second_conn_req(N):
        # the peer keeps one connection up and opens N further ones, each carrying one request that is answered before it ends
        evs = ["start fail", "acc", "rx 0 " + nodegen.cer("peer1.x", "4", n(), n())]
        for i in range(N):
            evs += ["acc", f"rx {i + 1} " + nodegen.cer("peer1.x", "4", n(), n()), f"rx {i + 1} " + nodegen.ccr(n(), n(), "peer1.x"),
                    f"ans 0 {i} 2001", f"eof {i + 1}"]
        return evs + ["eof 0", "tick"]

    def stop_forced(N):
        # N established connections, then a forced stop: everything ends with it
        evs = ["start fail"]
        for i in range(N):
            evs += ["acc", f"rx {i} " + nodegen.cer("peer1.x" if i % 2 == 0 else "peer2.x", "4", n(), n())]
        return evs + ["stop 1 1"]

    def stop_unanswered(N):
        # N established connections, a graceful stop whose DPRs nobody answers: closed at the wait timeout
        evs = ["start fail"]
        for i in range(N):
            evs += ["acc", f"rx {i} " + nodegen.cer("peer1.x" if i % 2 == 0 else "peer2.x", "4", n(), n())]
        return evs + ["stop 0 2"]

    def stop_newcomers(N):
        # a graceful stop waiting for one peer's DPA while N connections arrive: each is refused and closed at once
        evs = ["start fail", "acc", "rx 0 " + nodegen.cer("peer1.x", "4", n(), n())]
        return evs + [f"stop 0 {N + 2} " + " ".join(["acc"] * N) + " rx_0_" + nodegen.dpa(n(), n(), "peer1.x")]

    def dial_no_address(N):
        # a persistent peer without addresses that had connected by itself and is gone: N reconnect passes find nothing to dial
        evs = ["start fail", "acc", "rx 0 " + nodegen.cer("peer2.x", "4", n(), n()), "eof 0", "tick"]
        for i in range(N):
            evs += ["adv 3"]
        return evs + ["tick"]

    def dial_refused(N):
        evs = ["start fail"]
        for i in range(N):
            evs += ["dial fail", "adv 2"]
        return evs + ["tick"]

    def dial_async_fail(N):
        evs = ["start fail"]
        for i in range(N):
            evs += ["dial inp", "adv 2", f"conn {i + 1} fail"]
        return evs + ["tick"]

    def dial_rejected(N):
        evs = ["start fail"]
        for i in range(N):
            evs += ["dial ok", "adv 2", f"rx {i + 1} " + nodegen.cea(5010, "peer2.x", n(), n())]
        return evs + ["tick"]

    def dial_established(N):
        evs = ["start fail"]
        for i in range(N):
            evs += ["dial ok", "adv 2", f"rx {i + 1} " + nodegen.cea(2001, "peer2.x", n(), n()), f"eof {i + 1}"]
        return evs + ["tick"]

    return {"inbound_req": inbound_req, "inbound_req_norc": inbound_req_norc, "inbound_req_no_origin": inbound_req_no_origin,
            "cer_no_origin": cer_no_origin, "hard_write_error": hard_write_error,
            "rejected_req": rejected_req, "dup_reject": dup_reject, "dwr_in": dwr_in, "dwr_in_sparse": dwr_in_sparse, "dwr_out": dwr_out,
            "outbound_req": outbound_req, "outbound_req_timeout": outbound_req_timeout, "conn_ok": conn_ok, "inbound_req_raise": inbound_req_raise, "thread_req": thread_req,
            "thread_req_raise": thread_req_raise, "conn_req_answered": conn_req_answered, "conn_node_closes": conn_node_closes, "conn_unknown": conn_unknown,
            "conn_timeout": conn_timeout, "conn_cer_rejected": conn_cer_rejected, "pair_write_fail": pair_write_fail, "conn_already": conn_already, "second_conn_req": second_conn_req,
            "stop_forced": stop_forced, "stop_unanswered": stop_unanswered, "stop_newcomers": stop_newcomers, "dial_no_address": dial_no_address, "dial_refused": dial_refused,
            "dial_async_fail": dial_async_fail, "dial_rejected": dial_rejected, "dial_established": dial_established}


def final(lines: list[str]):
    size = next((kv(l) for l in reversed(lines) if l.startswith("SIZE ")), {})
    resl = next((kv(l) for l in reversed(lines) if l.startswith("RES ")), {})
    # every container attribute of the node and the applications, whatever its name (a table added tomorrow is covered too);
    # the named tables above, the retransmission window and the statistics are judged separately / documented fixed-size
    allc = next((kv(l) for l in reversed(lines) if l.startswith("ALL ")), {})
    for k in ("node._app_waiting_answer", "node._sent_answers", "node._peer_waiting_answer", "node._origin_waiting_answer",
              "node.connections", "node.peer_sockets", "node.socket_peers", "node._half_ready_connections", "_"):
        allc.pop(k, None)
    for k in list(allc):
        if k.endswith("._answer_waiting"):
            allc.pop(k)
    size["__all__"] = allc
    size["__stat__"] = next((kv(l) for l in reversed(lines) if l.startswith("STAT ")), {})
    return size, resl


def run(res: Result, tier: str, seed: int):
    res.rule = ("25 kinds of completed transaction / connection attempt, each repeated N times (N = 1, 10 quick; 1, 10, 100 thorough; "
                "a 1000-run for inbound requests in thorough) on one node, ending with every request answered and every "
                "connection ended; oracle: every table size, the open-socket count and the live-worker count at the end are the "
                "same for every N (apart from the fixed-size retransmission window; the peers' statistics windows stay within their documented bounds: deque bound, maximum age of the time slots); real vs model on SIZE/RES")
    Ns = [1, 10] if tier == "quick" else [1, 10, 100]
    fails, div = [], []
    ks = kinds()
    scen = []
    for name, fn in ks.items():
        for N in Ns + ([1000] if (tier != "quick" and name == "inbound_req") else []):
            scen.append((name, N, (BASE_OUT if name in OUT_KINDS else BASE_T if name in T_KINDS else BASE_NOADDR if name == "dial_no_address" else BASE_IN) + " | " + " | ".join(fn(N))))
    # … and some kinds on a configuration whose routing table has the application under several realms (peers in two
    # realms, an additional realm, a default peer in a realm of its own): the route lists are state too
    for name in ("hard_write_error", "inbound_req", "conn_unknown", "second_conn_req"):
        if name in ks:
            for N in Ns:
                scen.append((name + "@multirealm", N, BASE_MR + " | " + " | ".join(ks[name](N))))
    lines = [s for _, _, s in scen]
    reals = [run_real(l, budget=300) for l in lines]
    models = [m.split(" ## ") for m in run_driver(lines)]
    res.traces_validated += len(lines)
    by_kind = {}
    for (name, N, line), r, m in zip(scen, reals, models):
        res.cases += 1
        if r and r[0].startswith("HARNESS-"):
            fails.append({"what": "scenario could not be driven: " + r[0], "line": line[:600]})
            continue
        size, resl = final(r)
        stat = size.pop("__stat__", {})
        if stat.get("unbounded", "0") != "0" or stat.get("beyondAge", "0") != "0":
            fails.append({"what": "a statistics window is not fixed-size: an unbounded record, or a time-slotted counter retaining values "
                                  "older than its maximum age", "kind": name, "N": [N], "real": str(stat), "line": line[:1200]})
        by_kind.setdefault(name, []).append((N, size, resl, line))
        pr, pm = nodecheck.project(r, KEEP)[-8:], nodecheck.project(m, KEEP)[-8:]
        if pr != pm:
            div.append({"line": line[:1500], "real": " / ".join(pr)[:800], "model": " / ".join(pm)[:800]})
    for name, rows in by_kind.items():
        N0, s0, r0, _ = rows[0]
        for N, s, rr, line in rows[1:]:
            grow = [k for k in ("conns", "socks", "sockPeers", "half", "appW", "peerW", "peerWc", "origW", "ansW") if s.get(k) != s0.get(k)]
            grow += [k for k in ("socketsOpen", "workersLive") if rr.get(k) != r0.get(k)]
            a0, a1 = s0.get("__all__", {}), s.get("__all__", {})
            grow += [k for k in sorted(set(a0) | set(a1)) if a0.get(k) != a1.get(k)]
            if grow:
                fails.append({"what": f"retained state grows with the number of completed '{name}' transactions / attempts: "
                                      f"{', '.join(grow)}", "kind": name, "N": [N0, N],
                              "real": f"N={N0}: {s0} {r0}  N={N}: {s} {rr}", "line": line[:1200], "grow": grow})
            else:
                res.nontrivial.add(hash((name, N)))
    res.sample({"kind": "inbound_req", "N": 1, "scenario": lines[0][:300]})
    return fails, div


def signature(f: dict):
    if f.get("grow") == ["appW"] and f.get("kind") in ("outbound_req", "outbound_req_timeout"):
        return "app_waiting_never_pruned"
    return None


def search(res: Result, seed: int, broken) -> list:
    r2 = Result(PROP, "thorough", seed)
    fails, _ = run(r2, "quick", seed)
    return fails
