"""C20 — answers built from requests mirror the header and use the paired class."""
from __future__ import annotations

import random

from common import Result
import gen
from codecdiff import Diff

PROP = "C20"
MODULES = ["DV.Properties.C20", "DV.Properties.C20Tables", "DV.Properties.C20Node", "DV.Properties.ConfigTie"]

QUICK_FLAGS = [0x80, 0xc0, 0xa0, 0x90, 0xb0, 0xd0, 0xe0, 0xf0, 0x00, 0x40, 0x81, 0xcf, 0xff, 0x8f]


def expected_answer_class(cls):
    """Independent statement of the pairing rule, by class names."""
    from diameter.message import Message
    name = cls.__name__
    if not name.endswith("Request"):
        return cls
    base = name[:-7]
    for k in cls.__mro__:
        if k.__name__ == base:
            for sub in k.__subclasses__():
                if sub.__name__ == base + "Answer":
                    return sub
            return k
    return Message


def helper_oracle(res: Result, rng: random.Random, fails: list, n: int):
    """Node / Application helper-built answers: Origin-Host/-Realm of the node,
    Session-Id and Proxy-Info copied (real code, independent wire parser)."""
    from diameter.message import Message, Avp, constants
    from diameter.message.commands import all_commands
    from diameter.node import Node
    from diameter.node.application import Application
    import diameter.node.node as node_mod
    import diameter.node.peer as peer_mod

    class _T:
        def __init__(self, *a, **k):
            pass

        def start(self):
            pass

        def stop(self):
            pass

        def join(self, *a):
            pass
    saved = (node_mod.StoppableThread, peer_mod.StoppableThread)
    node_mod.StoppableThread = _T
    peer_mod.StoppableThread = _T
    try:
        # two nodes: the one application object is moved from one to the other now and then (an application registered
        # with another node answers in that node's name from then on)
        nodes = [Node("verif.node.example", "verif.realm.example"), Node("second.node.example", "second.realm.example")]
        idents = [(b"verif.node.example", b"verif.realm.example"), (b"second.node.example", b"second.realm.example")]
        cur = 0
        node = nodes[cur]
        app = Application(application_id=4, is_auth_application=True)
        app._node = node
        codes = sorted(all_commands)
        for i in range(n):
            if i > 0 and rng.random() < 0.1:
                cur ^= 1
                node = nodes[cur]
                try:
                    node.add_application(app, [])      # (the documented way; it binds the application to the node)
                except Exception:  # noqa
                    pass
                app._node = node
            code = rng.choice(codes + [999, 70000])
            flags = rng.choice([0x80, 0xc0, 0x90, 0xd0])
            sid = ("sess;%d" % rng.getrandbits(32)).encode()
            with_sid = rng.random() < 0.75             # (a request without Session-Id: the answer has none either)
            avps = [gen.rfc_wire(263, 0, 0x40, sid)] if with_sid else []
            # 0..3 Proxy-Info AVPs (a chain of proxies): the answer carries them all, in the same order (RFC 6733 6.2)
            # (the proxy named in an entry may be anybody: another proxy, the sender, the answering node itself)
            pis = [gen.rfc_wire(280, 0, 0x40, rng.choice([b"proxy%d.host" % k, b"proxy%d.host" % k, b"verif.node.example", b"peer.host",
                                                           b"VERIF.NODE.EXAMPLE", b""])) + gen.rfc_wire(33, 0, 0x40, b"st%d" % k)
                   for k in range(rng.choice([0, 0, 1, 1, 2, 3]))]
            with_pi = bool(pis)
            for pi in pis:
                avps.append(gen.rfc_wire(284, 0, 0x40, pi))
            avps.append(gen.rfc_wire(264, 0, 0x40, b"peer.host"))
            avps.append(gen.rfc_wire(296, 0, 0x40, b"peer.realm"))
            # Destination-Realm / -Host of the request (the node's own, another realm it might serve, absent): the answer
            # carries the *local* origin all the same
            dr = rng.choice([None, b"verif.realm.example", b"other.realm.example"])
            if dr is not None:
                avps.append(gen.rfc_wire(283, 0, 0x40, dr))
            if rng.random() < 0.3:
                avps.append(gen.rfc_wire(293, 0, 0x40, rng.choice([b"verif.node.example", b"someone.else.example"])))
            body = b"".join(avps)
            # (the request's application id need not be the one the Application object was created with)
            req_app = rng.choice([4, 4, 0, 1, 3, 16777238, 0xffffffff])
            # (identifiers are the sender's choice, 0 included)
            req_hbh, req_e2e = (rng.choice([0, 1, 2**31, 2**32 - 1, rng.getrandbits(32), rng.getrandbits(32)]) for _ in range(2))
            data = gen.rfc_header(1, 20 + len(body), flags, code, req_app, req_hbh, req_e2e) + body
            try:
                req = Message.from_bytes(data)
            except Exception:
                continue
            for who, fn in (("node", lambda r: node._generate_answer(None, r)), ("app", lambda r: app.generate_answer(r))):
                res.cases += 1
                res.count("helper:" + who)
                try:
                    ans = fn(req)
                    wire = ans.as_bytes()
                except Exception as ex:  # noqa
                    fails.append({"what": f"{who} helper raised {type(ex).__name__}", "line": f"HELPER {who} {data.hex()}"})
                    continue
                try:
                    hv = gen.rfc_parse_header(wire)
                    # version, length, flags, code, application id, hop-by-hop, end-to-end
                    if (hv[3], hv[4], hv[5], hv[6]) != (code, req_app, req_hbh, req_e2e) or hv[2] & 0x80 \
                            or (hv[2] & 0x40) != (flags & 0x40):
                        fails.append({"what": f"{who} helper answer header does not mirror the request (code/app/ids; R clear, P as "
                                              "in the request)", "line": f"HELPER {who} {data.hex()}", "real": wire[:20].hex(),
                                      "expected": f"code={code} app={req_app} hbh={req_hbh} e2e={req_e2e}"})
                        continue
                except gen.WireError as ex:
                    fails.append({"what": f"{who} helper answer header does not parse: {ex}", "line": f"HELPER {who} {data.hex()}"})
                    continue
                try:
                    got = gen.rfc_parse_avps(wire[20:])
                except gen.WireError as ex:
                    fails.append({"what": f"{who} helper answer does not parse: {ex}", "line": f"HELPER {who} {data.hex()}"})
                    continue
                have = {(c, v): d for c, v, f, d in got}
                want = {(264, 0): idents[cur][0], (296, 0): idents[cur][1]}
                if with_sid:
                    want[(263, 0)] = sid
                elif (263, 0) in have:
                    fails.append({"what": f"{who} helper answer carries a Session-Id although the request has none (nothing to copy)",
                                  "line": f"HELPER {who} {data.hex()}", "real": wire.hex()[:200]})
                    continue
                missing = [k for k, d in want.items() if have.get(k) != d]
                if with_pi and [d for c, v, f, d in got if (c, v) == (284, 0)] != pis:
                    missing.append((284, 0))
                typed = hasattr(req, "avp_def")
                # a typed answer class that does not declare Session-Id / Proxy-Info
                # (CE, DW, DP: RFC 6733 gives them none) cannot carry them
                if typed:
                    declared = {dd.attr_name for dd in getattr(type(ans), "avp_def", ())}
                    if "session_id" not in declared and (263, 0) in missing:
                        missing.remove((263, 0))
                    if "proxy_info" not in declared and (284, 0) in missing:
                        missing.remove((284, 0))
                if not typed:
                    # answers to commands without a typed implementation never get their AVPs encoded (recorded finding);
                    # what the helpers do for them is assign attributes -- judge those: local origin, and Session-Id /
                    # Proxy-Info copied whenever the request object has them (each independently of the other)
                    _none = object()
                    bad_attrs = [a for a in ("session_id", "proxy_info")
                                 if hasattr(req, a) and getattr(ans, a, _none) != getattr(req, a)]
                    if getattr(ans, "origin_host", None) != idents[cur][0] or getattr(ans, "origin_realm", None) != idents[cur][1]:
                        bad_attrs.append("origin_host/origin_realm")
                    if bad_attrs:
                        fails.append({"what": "answer object built by a helper for a request without typed implementation does not "
                                              "even carry the copied values as attributes", "line": f"HELPER {who} {data.hex()}",
                                      "real": str(bad_attrs), "answer_class": type(ans).__name__})
                        continue
                if missing:
                    fails.append({"what": "helper-built answer lacks Origin-Host/Origin-Realm/Session-Id/Proxy-Info",
                                  "line": f"HELPER {who} {data.hex()}", "missing": str(missing),
                                  "typed_request": typed, "answer_class": type(ans).__name__,
                                  "real": wire.hex()[:200]})
                else:
                    res.nontrivial.add(hash(("helper", who, code, len(pis))))
    finally:
        node_mod.StoppableThread, peer_mod.StoppableThread = saved


def registered_commands(res: Result, fails: list):
    """A command added at run time with `commands.register()` (the documented extension mechanism): its requests are
    answered with *its* Answer class, the header mirrored, and the helpers' AVPs on the wire (real-only oracle)."""
    from diameter.message import Message, DefinedMessage, commands
    from diameter.message.avp.generator import AvpGenDef
    from diameter.message.commands._attributes import assign_attr_from_defs
    from diameter.message import constants
    from diameter.node import Node
    from diameter.node.application import Application
    try:
        class XVerifPair(DefinedMessage):
            code = 7777010
            name = "X-Verif-Pair"
            avp_def = ()

            @classmethod
            def type_factory(cls, header):
                return XVerifPairRequest if header.is_request else XVerifPairAnswer

        class XVerifPairAnswer(XVerifPair):
            session_id: str
            origin_host: bytes
            origin_realm: bytes
            result_code: int
            avp_def = (AvpGenDef("session_id", constants.AVP_SESSION_ID, is_required=True),
                       AvpGenDef("origin_host", constants.AVP_ORIGIN_HOST, is_required=True),
                       AvpGenDef("origin_realm", constants.AVP_ORIGIN_REALM, is_required=True),
                       AvpGenDef("result_code", constants.AVP_RESULT_CODE))

            def __post_init__(self):
                self.header.command_code = self.code
                super().__post_init__()
                self.header.is_request = False
                assign_attr_from_defs(self, self._avps)
                self._avps = []

        class XVerifPairRequest(XVerifPair):
            session_id: str
            origin_host: bytes
            origin_realm: bytes
            avp_def = (AvpGenDef("session_id", constants.AVP_SESSION_ID, is_required=True),
                       AvpGenDef("origin_host", constants.AVP_ORIGIN_HOST, is_required=True),
                       AvpGenDef("origin_realm", constants.AVP_ORIGIN_REALM, is_required=True))

            def __post_init__(self):
                self.header.command_code = self.code
                super().__post_init__()
                self.header.is_request = True
                assign_attr_from_defs(self, self._avps)
                self._avps = []
        commands.register(XVerifPair)
    except Exception as ex:  # noqa
        fails.append({"what": f"registering a command at run time raised {type(ex).__name__}: {ex}", "line": "register()"})
        return
    try:
        import realnode  # noqa: F401
        from diameter.node import node as node_mod, peer as peer_mod

        class _T:
            def __init__(self, *a, **k):
                self.is_stopped = False

            def start(self):
                pass

            def stop(self):
                self.is_stopped = True

            def join(self, *a):
                pass

            def is_alive(self):
                return False
        saved = (node_mod.StoppableThread, peer_mod.StoppableThread)
        node_mod.StoppableThread = peer_mod.StoppableThread = _T
        try:
            node = Node("verif.node.example", "verif.realm.example")
            app = Application(application_id=4, is_auth_application=True)
            app._node = node
            for flags in (0x80, 0xc0):
                body = (gen.rfc_wire(263, 0, 0x40, b"sess;x") + gen.rfc_wire(264, 0, 0x40, b"peer.host") +
                        gen.rfc_wire(296, 0, 0x40, b"peer.realm"))
                data = gen.rfc_header(1, 20 + len(body), flags, 7777010, 4, 77, 88) + body
                req = Message.from_bytes(data)
                res.cases += 1
                res.count("registered-command")
                problems = []
                if type(req) is not XVerifPairRequest:
                    problems.append(f"request decoded as {type(req).__name__}")
                for who, ans in (("to_answer", req.to_answer()), ("node", node._generate_answer(None, req)), ("app", app.generate_answer(req))):
                    if type(ans) is not XVerifPairAnswer:
                        problems.append(f"{who}: answer is a {type(ans).__name__}, not the registered command's answer class")
                        continue
                    h = gen.rfc_parse_header(ans.as_bytes())
                    if (h[2], h[3], h[4], h[5], h[6]) != (flags & 0x40, 7777010, 4, 77, 88):
                        problems.append(f"{who}: header {h}")
                    if who != "to_answer":
                        got = {(c, v): p for c, v, _f, p in gen.rfc_parse_avps(ans.as_bytes()[20:])}
                        if got.get((264, 0)) != b"verif.node.example" or got.get((296, 0)) != b"verif.realm.example" or \
                                got.get((263, 0)) != b"sess;x":
                            problems.append(f"{who}: AVPs on the wire {sorted(got)}")
                if problems:
                    fails.append({"what": "a command registered at run time is not answered with its own answer class / mirrored header "
                                          "/ helper AVPs: " + "; ".join(problems)[:500], "line": f"registered command, flags {flags:#x}"})
        finally:
            node_mod.StoppableThread, peer_mod.StoppableThread = saved
            commands.all_commands.pop(7777010, None)
    except Exception as ex:  # noqa
        commands.all_commands.pop(7777010, None)
        fails.append({"what": f"answering a run-time registered command raised {type(ex).__name__}: {ex}", "line": "registered command"})


def run_cases(res: Result, rng: random.Random, flags_list, n_helper: int, fails: list):
    from realcodec import side
    sd = side()
    d = Diff(res)
    for cid_s in sd["msg_classes"]:
        cid = int(cid_s)
        cls = sd["cls_by_id"].get(cid)
        if cls is None:
            continue
        exp = expected_answer_class(cls)
        for flags in flags_list:
            ver = rng.choice([1, 1, 0, 255])
            code = rng.choice([cls.code, cls.code, 999, 2**24 - 1])
            app, hbh, e2e = (rng.choice([0, 1, 4, 2**31, 2**32 - 1, rng.getrandbits(32)]) for _ in range(3))
            line = f"ANSWER {cid} {ver} {flags} {code} {app} {hbh} {e2e}"
            r = d.add(line)
            if r.startswith("EXC") or r == "REQUEST-MODIFIED":
                fails.append({"what": "to_answer raised or modified the request", "line": line, "real": r})
                continue
            t = r.split(" ")
            acls = sd["cls_by_id"].get(int(t[0]))
            ah = [int(x) for x in t[1:8]]
            rh = [int(x) for x in t[9:16]]
            if acls is not exp:
                fails.append({"what": "answer is not an instance of the command's answer class", "line": line,
                              "real": getattr(acls, "__name__", "?"), "expected": exp.__name__})
            want = [rh[0], ah[1], rh[2] & 0x40, rh[3], rh[4], rh[5], rh[6]]
            if ah != want:
                fails.append({"what": "answer header does not mirror the request (version/code/app/ids; flags = P bit only)",
                              "line": line, "real": str(ah), "expected": str(want)})
    registered_commands(res, fails)
    helper_oracle(res, rng, fails, n_helper)
    for s in d.lines[:2] + d.lines[-2:]:
        res.sample({"line": s})
    return d


def run(res: Result, tier: str, seed: int):
    rng = random.Random(seed * 1000003 + 20)
    res.rule = ("every message class x flag octets (quick: 14 representative, thorough: all 256) x boundary ids: to_answer class "
                "and header vs the name-pairing rule and the mirror rule; request unmodified; node/application helper answers "
                "parsed with an independent parser; non-trivial = distinct lines not rejected")
    fails: list = []
    flags_list = QUICK_FLAGS if tier == "quick" else list(range(256))
    d = run_cases(res, rng, flags_list, 150 if tier == "quick" else 3000, fails)
    return fails, d.compare()


def signature(f: dict):
    if f.get("what", "").startswith("helper-built answer lacks") and f.get("typed_request") is False:
        return "helper_answer_untyped_no_avps"
    return None


def search(res: Result, seed: int, broken) -> list:
    rng = random.Random(seed * 7919 + 29)
    fails: list = []
    r2 = Result(PROP, "thorough", seed)
    run_cases(r2, rng, list(range(256)), 500, fails)
    res.extra["search_cases"] = r2.cases
    return fails
