"""Shared pieces of the codec checks: case collection and model/real comparison."""
from __future__ import annotations

import random

from common import Result, run_driver
import gen


class Diff:
    """Collects (line, real output) pairs; later compares with the model."""

    def __init__(self, res: Result):
        self.res = res
        self.lines: list[str] = []
        self.real: list[str] = []
        self.seen: set = set()

    def add(self, line: str) -> str:
        from realcodec import real
        r = real(line)
        if line not in self.seen:
            self.seen.add(line)
            self.lines.append(line)
            self.real.append(r)
            self.res.cases += 1
            self.res.count("cmd:" + line.split(" ", 1)[0])
            if r.startswith("EXC"):
                self.res.count("real:" + r)
            else:
                self.res.nontrivial.add(hash(line))
        return r

    def compare(self) -> list[dict]:
        model = run_driver(self.lines)
        div = []
        for l, r, m in zip(self.lines, self.real, model):
            if r != m:
                div.append({"line": l[:4000], "real": r[:4000], "model": m[:4000]})
        self.res.traces_validated += len(self.lines)
        return div


def entries():
    from realcodec import D, ty_of
    out = []
    for code, e in D.AVP_DICTIONARY.items():
        out.append((code, 0, e))
    for vendor, vd in D.AVP_VENDOR_DICTIONARY.items():
        if vendor == 0:
            continue
        for code, e in vd.items():
            out.append((code, vendor, e))
    return out



def build_pool(d: Diff, rng: random.Random, n_plain: int = 60, rounds: int = 5, per_round: int = 12) -> list[str]:
    """AVP objects (as literals) to nest inside grouped AVPs / messages: plain
    ones first, then grouped ones containing earlier pool members (depth grows
    with every round)."""
    from realcodec import ty_of
    ents = entries()
    pool: list[str] = []
    for code, vendor, e in rng.sample(ents, min(n_plain, len(ents))):
        ty = ty_of(e["type"](0))
        if ty == gen.T_GRP:
            continue
        lit = rng.choice(gen.valid_values(ty, rng, 8))
        r = d.add(f"AVPNEW {code} {vendor} {lit} 0 0")
        if not r.startswith("EXC"):
            pool.append(r)
    grp_ents = [(c, v, e) for c, v, e in ents if ty_of(e["type"](0)) == gen.T_GRP]
    for depth in range(rounds):
        newpool = []
        for code, vendor, e in rng.sample(grp_ents, min(per_round, len(grp_ents))):
            lit = rng.choice(gen.valid_values(gen.T_GRP, rng, 4, avp_pool=pool))
            r = d.add(f"AVPNEW {code} {vendor} {lit} 0 0")
            if not r.startswith("EXC"):
                newpool.append(r)
        pool += newpool
    return pool
