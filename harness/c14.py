"""C14 — no fault or handler outcome stops service: workers survive and a peer
that connects afterwards is served exactly as on a fresh node."""
from __future__ import annotations

import random

from common import Result
import nodegen
import nodecheck
from nodecheck import Obs, kv
from nodegen import HOST, REALM

PROP = "C14"
MODULES = ["DV.Properties.C14", "DV.Properties.C14Tables", "DV.Properties.ConfigTie"]
KEEP = {"OUT": None, "APP": None, "CRASH": None, "RAISE": None, "CONN": ["state", "live"], "RES": ["workersLive", "crashed"],
        "SIZE": ["peerW"]}


def config(kind: str, limit: int) -> str:
    return (f"NODE host={HOST};realm={REALM};idle=30;cea=4;dwa=4;"
            f"peer:peer1.x,{REALM},0,0,30,1,0,-,-,-,-;peer:peer2.x,{REALM},1,1,5,1,0,-,-,-,-;"
            f"peer:peer3.x,{REALM},0,0,30,1,0,-,-,-,-;app:4,1,0,{kind},{limit},0+1+2,-")


def probe_events(conn: int, base: int, limit: int, kind: str, ids: int, peer: str = "peer3.x") -> list[str]:
    """Reconnect-and-serve probe: a new peer's handshake, a burst of limit+2
    requests, then limit+2 requests one after the other."""
    n = limit + 2
    evs = ["outcome 0 answer", "acc", f"rx {conn} " + nodegen.cer(peer, "4", ids, ids + 1)]
    burst = [nodegen.ccr(ids + 10 + 2 * i, ids + 11 + 2 * i, peer) for i in range(n)]
    evs.append(f"rx {conn} " + " ".join(burst))
    for i in range(n):
        evs.append("handler 0" if kind == "t" else f"ans 0 {base + i} 2001")
    for i in range(n):
        evs.append(f"rx {conn} " + nodegen.ccr(ids + 40 + 2 * i, ids + 41 + 2 * i, peer))
        evs.append("handler 0" if kind == "t" else f"ans 0 {base + n + i} 2001")
    return evs


def probe_view(obs: Obs) -> list[str]:
    """What the probing peer sees, and what the handler saw, from the probe mark on."""
    out, on, conn = [], False, None
    for ev, lines in obs.blocks:
        if ev.startswith("mark probe"):
            on = True
            conn = "c" + ev.split(":")[1]
            continue
        if not on:
            continue
        for l in lines:
            if l.startswith("OUT ") and l.split(" ")[1] == conn:
                d = kv(l)
                out.append(f"OUT cmd={d.get('cmd')} R={d.get('R')} hbh={d.get('hbh')} e2e={d.get('e2e')} rc={d.get('rc')}")
            elif l.startswith("APP ") and (" REQ " in l or " SENT" in l or " RAISE " in l):
                out.append(l)
    return out


_fresh_cache: dict = {}


def fresh_view(cfg: str, limit: int, kind: str, ids: int, peer: str = "peer3.x") -> list[str]:
    key = (cfg, ids, peer)
    if key not in _fresh_cache:
        # (the failed dial to a persistent peer is connection 0 of the fresh node, when the configuration has one)
        first = 1 if any(p["persistent"] and p["addr"] for p in nodecheck.parse_cfg(cfg)["peers"]) else 0
        line = cfg + f" | start fail | mark probe:{first} | " + " | ".join(probe_events(first, 0, limit, kind, ids, peer))
        _fresh_cache[key] = probe_view(Obs(nodecheck.run_real(line)))
        if len(_fresh_cache) > 2000:
            _fresh_cache.pop(next(iter(_fresh_cache)))
    return _fresh_cache[key]


def oracle(line: str, obs: Obs):
    fails = []
    for ev, lines in obs.blocks:
        for l in lines:
            if l.startswith("CRASH "):
                fails.append({"what": "a worker thread terminated abnormally: " + l, "event": ev[:200], "real": l, "kind": l.split(" ")[1]})
                return fails
    omark = next((ev for ev, _ in obs.blocks if ev.startswith("mark overlap")), None)
    if omark is not None:
        # a peer arriving while work of a lost connection is still around: no request of it is lost -- each gets exactly one answer
        oc, on, asked, answered = "c" + omark.split(":")[1], False, [], {}
        for ev, lines in obs.blocks:
            if ev == omark:
                on = True
                continue
            if not on:
                continue
            t = ev.split(" ")
            if t[0] == "rx" and f"c{t[1]}" == oc:
                for dmsg in t[2:]:
                    m = nodecheck.parse_msg(dmsg)
                    if m["R"] and m["cmd"] == 272:
                        asked.append(m["hbh"])
            for l in lines:
                if l.startswith(f"OUT {oc} "):
                    d = kv(l)
                    if d["R"] == "0" and d["cmd"] == "272":
                        answered[int(d["hbh"])] = answered.get(int(d["hbh"]), 0) + 1
        bad = [h for h in asked if answered.get(h, 0) != 1]
        if bad:
            fails.append({"what": "requests of a peer that connected while work of a lost connection was still queued did not get "
                                  "exactly one answer each (capacity / requests lost for good)", "event": omark,
                          "real": f"asked {asked} answered {answered}", "kind": "overlap"})
        return fails
    mark = next((ev for ev, _ in obs.blocks if ev.startswith("mark probe")), None)
    if mark is None:
        return fails
    f = mark.split(":")
    _, conn, base, limit, kind, ids = f[:6]
    peer = f[6] if len(f) > 6 else "peer3.x"
    cfg = line.split("|")[0].strip()
    # (the fresh node is not subjected to the injected interleaving)
    cfg = ";".join(x for x in cfg.split(";") if not x.startswith("midroute=") and not x.startswith("NODE midroute=")) if "midroute=" in cfg else cfg
    if not cfg.startswith("NODE "):
        cfg = "NODE " + cfg
    # at the probe (a quiescent point: every earlier event has been followed by I/O rounds until nothing moved) no closed
    # connection is still registered -- a connection the node gave up on but never unregistered keeps its socket for good
    for ev, lines_ in obs.blocks:
        if ev == mark:
            for l in lines_:
                if l.startswith("CONN ") and kv(l).get("state") == "CLOSED" and kv(l).get("live") == "1":
                    fails.append({"what": "a connection the node has closed is still registered (its socket is never closed: "
                                          "capacity consumed for good)", "event": mark, "real": l, "kind": "leak"})
            break
    got = probe_view(obs)
    want = fresh_view(cfg, int(limit), kind, int(ids), peer)
    if got != want:
        i = next((k for k, (a, b) in enumerate(zip(got, want)) if a != b), min(len(got), len(want)))
        fails.append({"what": "a peer connecting after the faults is not served as on a fresh node",
                      "event": mark, "real": " / ".join(got[max(0, i - 1):i + 2]), "fresh": " / ".join(want[max(0, i - 1):i + 2]),
                      "kind": "probe"})
    return fails


# ----------------------------------------------------------------- generator
CUTS = ["none", "v", "hdr", "hdrend", "avps", "last"]


class Builder:
    """Builds a scenario against a live instance of the real node (in the virtual
    environment), so that connection indices and pending handlers are known."""

    def __init__(self, rng: random.Random, kind: str, limit: int, plan: str):
        import sim
        self.simmod = sim
        self.rng, self.kind, self.limit = rng, kind, limit
        self.cfg = config(kind, limit)
        self.sim = sim.Sim(self.cfg[5:].strip())
        self.evs: list[str] = []
        self.id = 500
        self.open1: set = set()       # connections of peer1 the scenario has opened and not cut
        self.ev("start " + plan)

    def close(self):
        self.sim.close()

    def n(self):
        self.id += 1
        return self.id

    def ev(self, e: str):
        self.evs.append(e)
        self.sim.event(e)

    def nconn(self):
        return len(self.sim.conns)

    def ready(self, c):
        return c < len(self.sim.conns) and self.sim.conns[c].state in (self.simmod.peer_mod.PEER_READY, self.simmod.peer_mod.PEER_READY_WAITING_DWA) \
            and self.sim.conns[c].ident in self.sim.node.connections

    def partial(self, c: int, msg: str, cut: str) -> bool:
        """Delivers the message up to the cut class; True when it arrived whole."""
        if cut == "none":
            self.ev(f"rx {c} {msg}")
            return True
        raw = self.simmod.build_msg(msg)
        at = {"v": self.rng.randint(1, 3), "hdr": self.rng.randint(4, 19), "hdrend": 20,
              "avps": self.rng.randint(21, max(21, len(raw) - 2)), "last": len(raw) - 1}[cut]
        self.ev(f"rxraw {c} {raw[:at].hex()}")
        return False

    def fault(self, c: int, whole: bool = True):
        self.open1.discard(c)
        k = self.rng.choice(["eof", "reset", "soft-eof", "wr", "wr-soft"] if whole else ["eof", "reset", "soft-eof"])
        if k == "eof":
            self.ev(f"eof {c}")
        elif k == "reset":
            self.ev(f"rerr {c} " + self.rng.choice(["hard", "hard", "hardT", "hardU", "hardN", "hardP", "hardA", "hardF", "hardO"]))
        elif k == "soft-eof":
            self.ev(f"rerr {c} " + self.rng.choice(["soft", "soft", "softB", "softS", "softI", "softW"]))
            self.ev(f"eof {c}")
        else:
            hk = self.rng.choice(["hard", "hard", "hardT", "hardU", "hardN", "hardR", "hardO"])
            self.ev(f"wr {c} " + (hk if k == "wr" else self.rng.choice(["soft", "softB", "softS", "softI"]) + "," + hk))
            self.ev(f"block {c} 0")
            self.ev(f"rx {c} " + nodegen.dwr(self.n(), self.n(), "peer1.x"))
            if self.ready(c):
                self.ev(f"eof {c}")

    # ---- episodes
    def inbound(self, cut: str = "none", host="peer1.x"):
        c = self.nconn()
        self.ev("acc")
        if host == "peer1.x":
            self.open1.add(c)
        whole = self.partial(c, nodegen.cer(host, "4", self.n(), self.n()), cut)
        return c, whole

    def ep_handshake_in(self):
        cut = self.rng.choice(CUTS + ["acc"])
        if cut == "acc":
            c = self.nconn()
            self.ev("acc")
            self.fault(c, False)
            return
        c, whole = self.inbound(cut)
        self.fault(c, whole)

    def ep_handshake_out(self):
        # conn 0 is the dialled connection to peer2 (when start dialled)
        c = 0
        if c >= self.nconn() or self.sim.conns[c].state == self.simmod.peer_mod.PEER_CLOSED:
            return
        if self.sim.conns[c].state == self.simmod.peer_mod.PEER_CONNECTING:
            o = self.rng.choice(["ok", "fail"])
            self.ev(f"conn {c} {o}")
            if o == "fail":
                return
        cut = self.rng.choice(CUTS + ["before"])
        if cut == "before":
            self.fault(c, False)
            return
        hbh = self.sim.conns[c].hop_by_hop_seq._sequence
        whole = self.partial(c, nodegen.cea(2001, "peer2.x", hbh, 1), cut)
        if self.rng.random() < 0.5 and whole:
            self.exchange(c, "peer2.x")
        else:
            self.fault(c, whole)

    def ep_exchange(self):
        c, whole = self.inbound("none")
        if not self.ready(c):
            return
        self.exchange(c, "peer1.x")

    def exchange(self, c: int, host: str):
        what = self.rng.choice(["req", "req", "req", "dwr", "dwa", "dpr"])
        if what == "dwr":
            whole = self.partial(c, nodegen.dwr(self.n(), self.n(), host), self.rng.choice(CUTS))
            self.fault(c, whole)
        elif what == "dwa":
            self.ev("adv 31")
            if not self.ready(c):
                return
            cut = self.rng.choice(CUTS + ["before"])
            if cut == "before":
                self.fault(c, True)
                return
            hbh = self.sim.conns[c].hop_by_hop_seq._sequence
            whole = self.partial(c, nodegen.dwa(hbh, 7, host), cut)
            self.fault(c, whole)
        elif what == "dpr":
            whole = self.partial(c, nodegen.dpr(self.n(), self.n(), host), self.rng.choice(CUTS))
            if whole:
                self.ev(f"eof {c}")
                self.open1.discard(c)
            else:
                self.fault(c, False)
        else:
            self.requests(c, host)

    def requests(self, c: int, host: str):
        rng = self.rng
        nreq = rng.randint(1, self.limit + 2)
        outcome = rng.choice(["answer", "none", "raise", "raise0", "slow"])
        self.ev(f"outcome 0 {outcome if outcome != 'slow' else 'answer'}")
        queued = rng.random() < 0.4
        if queued:
            self.ev(f"block {c} 1")
        held = self.kind == "t" and rng.random() < 0.3
        if held:
            # schedule: the application's queue consumers get no CPU until after the fault
            if rng.random() < 0.5 and self.limit > 0:
                self.ev(f"rx {c} " + " ".join(nodegen.ccr(self.n(), self.n(), host) for _ in range(self.limit)))
            self.ev("hold 0 1")
        cut = rng.choice(["none", "none", "none", "avps", "hdr"])
        base = len([1 for i, _ in self.sim.app_requests if i == 0])
        msgs = [nodegen.ccr(self.n(), self.n(), host) for _ in range(nreq)]
        self.last_req = (c, self.id - 1)
        if len(msgs) > 1:
            self.ev(f"rx {c} " + " ".join(msgs[:-1]))
        whole = self.partial(c, msgs[-1], cut)
        point = rng.choice(["arrived", "handled", "flushed"]) if outcome != "slow" else "arrived"
        if point != "arrived":
            self.run_handlers(base, nreq, outcome)
        if point == "flushed" and queued:
            self.ev(f"block {c} 0")
        if rng.random() < 0.8 or not whole:
            self.fault(c, whole)
        if held:
            self.ev("hold 0 0")
        if point == "arrived":
            self.run_handlers(base, nreq, outcome)

    def run_handlers(self, base: int, nreq: int, outcome: str):
        if self.kind == "t":
            for _ in range(len(self.sim.env.deferred_handlers)):
                self.ev("handler 0")
        elif outcome in ("answer", "slow"):
            have = len([1 for i, _ in self.sim.app_requests if i == 0])
            for i in range(base, have):
                self.ev(f"ans 0 {i} 2001")

    def probe(self):
        for _ in range(len(self.sim.env.deferred_handlers)):
            self.ev("handler 0")
        conn = self.nconn()
        base = len([1 for i, _ in self.sim.app_requests if i == 0])
        ids = self.n() + 100
        lc, lh = getattr(self, "last_req", (None, None))
        gone = lc is not None and lc < len(self.sim.conns) and self.sim.conns[lc].ident not in self.sim.node.connections
        if gone and self.rng.random() < 0.5:
            # hop-by-hop ids belong to a connection: the probing peer may use those of the last request of a connection that
            # has ended again (equal ids on two *live* connections are the recorded finding K2 of C09, not generated here)
            ids = lh - 10
        # the peer whose connections were all cut comes back itself, otherwise another peer connects
        peer = "peer1.x" if not self.open1 and self.rng.random() < 0.7 else "peer3.x"
        self.evs.append(f"mark probe:{conn}:{base}:{self.limit}:{self.kind}:{ids}:{peer}")
        self.evs += probe_events(conn, base, self.limit, self.kind, ids, peer)

    def line(self) -> str:
        return self.cfg + " | " + " | ".join(self.evs)


def build(rng: random.Random, kind: str, limit: int, nfaults: int, first=None, shutdown=False) -> str:
    plan = rng.choice(["ok", "inp", "fail"])
    b = Builder(rng, kind, limit, plan)
    try:
        for i in range(nfaults):
            ep = first if (i == 0 and first) else rng.choice(["in", "out", "ex", "ex", "ex"])
            {"in": b.ep_handshake_in, "out": b.ep_handshake_out, "ex": b.ep_exchange}[ep]()
        if shutdown:
            c, _ = b.inbound("none")
            nested = rng.choice(["", f"eof_{c}", f"rerr_{c}_hard", f"rx_{c}_" + nodegen.dpa(b.n(), b.n())])
            b.evs.append(f"stop {rng.choice([0, 1])} {rng.choice([1, 3])}" + (" " + nested if nested else ""))
        else:
            b.probe()
        return b.line()
    finally:
        b.close()


def corpus() -> list[str]:
    """Minimised past failures, run first."""
    out = []
    for limit in (1, 2):
        cfg = config("t", limit)
        cer1 = nodegen.cer("peer1.x", "4", 501, 502)
        # answer of a slow handler cannot be routed any more
        evs = ["start fail", "acc", f"rx 1 {cer1}", "rx 1 " + nodegen.ccr(503, 504), "eof 1", "handler 0",
               f"mark probe:2:1:{limit}:t:700"] + probe_events(2, 1, limit, "t", 700)
        out.append(cfg + " | " + " | ".join(evs))
        # handlers that return no answer
        evs = ["start fail", "acc", f"rx 1 {cer1}", "outcome 0 none"]
        for i in range(limit):
            evs += ["rx 1 " + nodegen.ccr(510 + 2 * i, 511 + 2 * i), "handler 0"]
        evs += ["eof 1", f"mark probe:2:{limit}:{limit}:t:700"] + probe_events(2, limit, limit, "t", 700)
        out.append(cfg + " | " + " | ".join(evs))
        # … and the peer comes back itself, numbering its requests from the same values again
        evs = ["start fail", "acc", f"rx 1 {cer1}", "outcome 0 none"]
        for i in range(limit):
            evs += ["rx 1 " + nodegen.ccr(510 + 2 * i, 511 + 2 * i), "handler 0"]
        evs += ["eof 1", f"mark probe:2:{limit}:{limit}:t:500:peer1.x"] + probe_events(2, limit, limit, "t", 500, "peer1.x")
        out.append(cfg + " | " + " | ".join(evs))
        # a slow handler still busy when the connection is lost; the peer comes back with the same numbering
        evs = ["start fail", "acc", f"rx 1 {cer1}", "rx 1 " + nodegen.ccr(510, 511), "eof 1", "handler 0",
               f"mark probe:2:1:{limit}:t:500:peer1.x"] + probe_events(2, 1, limit, "t", 500, "peer1.x")
        out.append(cfg + " | " + " | ".join(evs))
        # too-busy answer that cannot be routed: connection lost with requests still queued
        evs = ["start fail", "acc", f"rx 1 {cer1}", "rx 1 " + " ".join(nodegen.ccr(520 + 2 * i, 521 + 2 * i) for i in range(limit)),
               "hold 0 1", "rx 1 " + nodegen.ccr(540, 541), "eof 1", "hold 0 0"]
        evs += ["handler 0"] * limit
        out.append(cfg + " | " + " | ".join(evs + [f"mark probe:2:{limit}:{limit}:t:700"] + probe_events(2, limit, limit, "t", 700)))
        # … and the peer that comes next has its first requests queued while that stale request is still waiting
        evs = ["start fail", "acc", f"rx 1 {cer1}", "rx 1 " + " ".join(nodegen.ccr(520 + 2 * i, 521 + 2 * i) for i in range(limit)),
               "hold 0 1", "rx 1 " + nodegen.ccr(540, 541), "eof 1"]
        pe = probe_events(2, limit, limit, "t", 700)
        pe.insert(4, "hold 0 0")                     # (after the probe's burst has arrived)
        pe[5:5] = ["handler 0"] * limit              # the slow handlers of the lost connection finish
        # (not a quiescent point: the probe is not compared with a fresh node, but every request of it gets its one answer)
        out.append(cfg + " | " + " | ".join(evs + ["mark overlap:2"] + pe + ["tick"]))
        # (no persistent peer in the next ones: the clock advances and nothing is to be redialled)
        cfgn = cfg.replace(f"peer:peer2.x,{REALM},1,1,5", f"peer:peer2.x,{REALM},0,0,5")
        # a connection the node turns down (CER of a host it does not know: 3010, closed once the CEA has been flushed --
        # the close happens inside the I/O loop's locked section), then the probe
        evs = ["start", "acc", "rx 0 " + nodegen.cer("stranger.x", "4", 531, 532), "tick",
               f"mark probe:1:0:{limit}:t:700"] + probe_events(1, 0, limit, "t", 700)
        out.append(cfgn + " | " + " | ".join(evs))
        # more than the statistics window (1000 s) between two connections of one peer
        evs = ["start", "acc", f"rx 0 {cer1}", "rx 0 " + nodegen.ccr(533, 534), "handler 0", "tick", "eof 0", "tick", "adv 1100", "tick",
               f"mark probe:1:1:{limit}:t:700:peer1.x"] + probe_events(1, 1, limit, "t", 700, "peer1.x")
        out.append(cfgn + " | " + " | ".join(evs))
        # requests that sat in the receive queue for longer than the slot wait while every slot was busy
        # (no persistent peer here: the clock advances and nothing is to be redialled)
        cfgq = cfg.replace(f"peer:peer2.x,{REALM},1,1,5", f"peer:peer2.x,{REALM},0,0,5")
        evs = ["start", "acc", f"rx 0 {cer1}", "rx 0 " + " ".join(nodegen.ccr(560 + 2 * i, 561 + 2 * i) for i in range(limit)),
               "hold 0 1", "rx 0 " + nodegen.ccr(580, 581) + " " + nodegen.ccr(582, 583), "adv 6", "hold 0 0", "adv 6", "tick"]
        evs += ["handler 0"] * limit + ["eof 0"]
        out.append(cfgq + " | " + " | ".join(evs + [f"mark probe:1:{limit}:{limit}:t:700"] + probe_events(1, limit, limit, "t", 700)))
    return out


def during_scenarios() -> list[str]:
    """The fault hits while a basic application's handler is still running in the connection's reader thread (the
    handler then raises, or answers): judged by the direct oracle only (the model is sequential)."""
    out = []
    cer1 = nodegen.cer("peer1.x", "4", 601, 602)
    for fault in ("eof_1", "rerr_1_hard", "rerr_1_hardT", "rerr_1_soft+eof_1", "rerr_1_softB+eof_1", "wr_1_hard", "wr_1_hardU",
                  "wr_1_soft,hard+tick"):
        for outcome in ("raise", "raise0", "answer"):
            cfg = config("b", 0).replace("NODE ", f"NODE during={fault};", 1)
            evs = ["start fail", "acc", f"rx 1 {cer1}", f"outcome 0 {outcome}", "rx 1 " + nodegen.ccr(603, 604), "tick"]
            if outcome == "answer":
                evs.append("ans 0 0 2001")
            # afterwards another peer connects and is served (no probe comparison here: the fresh-node run would replay the fault)
            evs += ["outcome 0 answer", "acc", "rx 2 " + nodegen.cer("peer3.x", "4", 700, 701), "rx 2 " + nodegen.ccr(710, 711, "peer3.x"),
                    "ans 0 1 2001", "rx 2 " + nodegen.dwr(720, 721, "peer3.x")]
            out.append(cfg + " | " + " | ".join(evs))
    return out


def midroute_scenarios() -> list[str]:
    """The connection is lost (I/O thread) while the application's answer is inside `route_answer`, after the pending
    request was found and before its entry is removed — the real method stepped line by line, the loss injected at that
    point: whatever the submission raises then, the response consumer of a threading application survives it, the slot
    comes back and the next peer is served.  Judged by the direct oracle only (the model is sequential)."""
    out = []
    cer1 = nodegen.cer("peer1.x", "4", 601, 602)
    for limit in (1, 2):
        for fault in ("eof_1+tick", "rerr_1_hard+tick", "rerr_1_hardT+tick", "wr_1_hard+tick"):
            cfg = config("t", limit).replace("NODE ", f"NODE midroute={fault};", 1)
            evs = ["start fail", "acc", f"rx 1 {cer1}", "rx 1 " + nodegen.ccr(603, 604), "handler 0", "tick",
                   f"mark probe:2:1:{limit}:t:700"] + probe_events(2, 1, limit, "t", 700)
            out.append(cfg + " | " + " | ".join(evs))
    return out


def scenarios(rng: random.Random, tier: str) -> list[str]:
    out = corpus() + during_scenarios() + midroute_scenarios()
    # systematic: every first episode x application kind x thread limit 0..3 x 1..3 faults
    reps = 2 if tier == "quick" else 30
    for kind in ("t", "b"):
        for limit in ((0, 1, 2, 3) if kind == "t" else (0,)):
            for first in ("in", "out", "ex"):
                for nf in (1, 2, 3):
                    for _ in range(reps):
                        out.append(build(rng, kind, limit, nf, first))
            for _ in range(reps * 4):
                out.append(build(rng, kind, limit, rng.randint(1, 3)))
            for _ in range(reps):
                out.append(build(rng, kind, limit, rng.randint(0, 2), shutdown=True))
            # the same with default peers in the realm's routing table (the peer that is lost / the peer of the probe)
            for _ in range(reps):
                for which in ("peer1.x", "peer3.x"):
                    out.append(build(rng, kind, limit, rng.randint(1, 2), rng.choice(["in", "ex"])).replace(
                        f"peer:{which},{REALM},0,0,30,1,0", f"peer:{which},{REALM},0,0,30,1,1"))
    return out


def run(res: Result, tier: str, seed: int):
    rng = random.Random(seed * 1000003 + 14)
    res.rule = ("scenarios {inbound handshake, outbound handshake, request/answer with basic and threading application, DWR/DWA, "
                "DPR, shutdown} cut at {before, inside version/length, inside header, header end, inside AVPs, last byte, after} "
                "x fault {orderly close, reset, soft read error then close, hard write error, soft then hard write error, "
                "connect failure} x handler outcome {answer, no answer, exception, slow (answers after the loss)} x thread limit "
                "0..3 x 1..3 consecutive faults, then a probe: new peer handshake, burst of limit+2 requests, limit+2 requests in "
                "sequence; oracle: no worker crashes, probe output identical to the same probe on a fresh node; real vs model "
                "on OUT/APP/CRASH/RES")
    sc = scenarios(rng, tier)
    return nodecheck.run(res, sc, KEEP, oracle)


def signature(f: dict):
    return None


def search(res: Result, seed: int, broken) -> list:
    rng = random.Random(seed * 7919 + 67)
    found = []
    sc = corpus()
    for _ in range(300):
        kind = rng.choice(["t", "t", "b"])
        sc.append(build(rng, kind, rng.randint(0, 3) if kind == "t" else 0, rng.randint(1, 3)))
    for line in sc:
        r = nodecheck.run_real(line)
        if r and r[0].startswith("HARNESS-"):
            continue
        fs = oracle(line, Obs(r))
        for f in fs:
            f["line"] = line[:3000]
            found.append(f)
        if len(found) >= 3:
            break
    return found
