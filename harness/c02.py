"""C02 — message codec byte-exact; class dispatch; AVP search."""
from __future__ import annotations

import random

from common import Result
import gen
from codecdiff import Diff, entries, build_pool

PROP = "C02"
MODULES = ["DV.Properties.C02", "DV.Properties.C02Tables", "DV.Properties.ConfigTie"]

HDR_VALS = {
    "ver": [1, 0, 255, 2],
    "flags": [0x80, 0x00, 0xc0, 0x40, 0xa0, 0x90, 0xf0, 0xff, 0x0f, 0x01, 0x10, 0x30, 0x50, 0x70, 0x20, 0x60],
    "u32": [0, 1, 2**31, 2**32 - 1, 0x12345678],
}


def expected_class(code: int, r: bool):
    """Independent statement of the dispatch rule, from the class *names*."""
    from diameter.message.commands import all_commands
    from diameter.message import UndefinedMessage
    base = all_commands.get(code)
    if base is None or base.__name__ in ("Message", "DefinedMessage", "UndefinedMessage"):
        return UndefinedMessage         # (no command has this code -- also not code 0, the default of the generic bases)
    want = base.__name__ + ("Request" if r else "Answer")
    for sub in base.__subclasses__():
        if sub.__name__ == want:
            return sub
    return base


def dict_has(code, vendor):
    from realcodec import A, ty_of
    e = A.get_avp_dictionary_entry(code, vendor)
    return e is not None and ty_of(e["type"](0)) == gen.T_GRP


def grouped_keys():
    from realcodec import ty_of
    return {(c, v) for c, v, e in entries() if ty_of(e["type"](0)) == gen.T_GRP}


def oracle_find(avps, path, gk, depth=0):
    """Declarative path semantics on an independently parsed tree."""
    (code, vendor), rest = path[0], path[1:]
    found = []
    for (c, v, f, data) in avps:
        if c == code and v == vendor:
            if not rest or (c, v) not in gk:
                found.append((c, v, f, data))
            else:
                found += oracle_find(gen.rfc_parse_avps(data), rest, gk, depth + 1)
    return found


def run_cases(res: Result, rng: random.Random, n_msgs: int, hdr_grid: bool, fails: list):
    from realcodec import side
    from diameter.message.commands import all_commands
    sd = side()
    d = Diff(res)
    pool = build_pool(d, rng, 80, 6, 14)
    gk = grouped_keys()
    codes = sorted(all_commands.keys())

    def check_msg(ver, flags, code, app, hbh, e2e, avps: list[str], typed: bool):
        line = f"MSGENC {ver} {flags} {code} {app} {hbh} {e2e} [{','.join(avps)}]"
        hexs = d.add(line)
        body = b"".join(gen.avpobj_wire(a) for a in avps)
        want = (gen.rfc_header(ver, 20 + len(body), flags, code, app, hbh, e2e) + body).hex()
        if hexs != want:
            fails.append({"what": "encoded message differs from RFC layout (header fields / length / AVP bytes)",
                          "line": line, "real": hexs[:200], "expected": want[:200]})
            return None
        # generic decode: fields, AVP sequence, byte-exact re-encode
        r = d.add(f"MSGDEC {hexs} 1")
        if r.startswith("EXC"):
            fails.append({"what": "well-formed message does not decode (plain)", "line": f"MSGDEC {hexs[:200]} 1", "real": r})
            return None
        toks = r.split(" ")
        got_hdr = tuple(int(x) for x in toks[1:8])
        want_hdr = (ver, 20 + len(body), flags, code, app, hbh, e2e)
        base = all_commands.get(code)
        if base is None or base.__name__ in ("Message", "DefinedMessage", "UndefinedMessage"):
            from diameter.message import UndefinedMessage as base  # noqa
        if sd["cls_by_id"].get(int(toks[0])) is not base:
            fails.append({"what": "plain decode did not use the registered class", "line": f"MSGDEC {hexs[:200]} 1", "real": r[:200]})
        if got_hdr != want_hdr:
            fails.append({"what": "decoded header fields differ from the wire (plain decode)",
                          "line": f"MSGDEC {hexs[:300]} 1", "real": str(got_hdr), "expected": str(want_hdr)})
        if toks[8] in ("AVPS", "UNDEF"):
            if toks[9] != "[" + ",".join(avps) + "]":
                fails.append({"what": "decoded AVP sequence differs from the wire", "line": f"MSGDEC {hexs[:300]} 1",
                              "real": toks[9][:300], "expected": ("[" + ",".join(avps) + "]")[:300]})
            if toks[-1] != hexs:
                fails.append({"what": "re-encoding a generically decoded message differs from the input",
                              "line": f"MSGDEC {hexs[:300]} 1", "real": toks[-1][:200], "expected": hexs[:200]})
        if typed:
            r2 = d.add(f"MSGDEC {hexs} 0")
            if not r2.startswith("EXC"):
                t2 = r2.split(" ")
                cls = sd["cls_by_id"].get(int(t2[0]))
                exp = expected_class(code, bool(flags & 0x80))
                if cls is not exp:
                    fails.append({"what": "typed decode chose the wrong class for (command code, R bit)",
                                  "line": f"MSGDEC {hexs[:300]} 0", "real": getattr(cls, "__name__", "?"),
                                  "expected": exp.__name__})
                got2 = tuple(int(x) for x in t2[1:8])
                if got2 != want_hdr:
                    fails.append({"what": "decoded header fields differ from the wire (typed decode)",
                                  "line": f"MSGDEC {hexs[:300]} 0", "real": str(got2), "expected": str(want_hdr)})
        return hexs

    # 1. header grid on every registered code x R, plus unknown codes
    grid_codes = codes + [0, 1, 999, 2**24 - 1, 8388608]
    for code in grid_codes:
        for flags in HDR_VALS["flags"] if hdr_grid else [0x80, 0x00, 0xc0, 0x40, 0xb0]:
            ver = rng.choice(HDR_VALS["ver"])
            app, hbh, e2e = (rng.choice(HDR_VALS["u32"]) for _ in range(3))
            check_msg(ver, flags, code, app, hbh, e2e, [], True)
    # … and the boundary application ids with both R values on every code (a class must not put its own default over a
    # received 0)
    for code in grid_codes:
        for flags in (0x80, 0x00):
            for app in (0, 2**32 - 1):
                check_msg(1, flags, code, app, 1, 2, [], True)
    # 2. messages with 0..40 AVPs (repeats, nesting)
    msgs = []
    for i in range(n_msgs):
        n = rng.choice([0, 1, 2, 3, 5, 8, 13, 21, 40])
        avps = [rng.choice(pool) for _ in range(n)]
        if avps and rng.random() < 0.5:
            avps += [rng.choice(avps) for _ in range(rng.randrange(1, 3))]
        # generic codes mostly: typed commands re-order AVPs (C03), so the
        # byte-exact claim is about the generic decode only
        code = rng.choice([rng.choice(codes), 999, 5000, rng.randrange(2**24)])
        flags = rng.choice(HDR_VALS["flags"])
        h = check_msg(1, flags, code, rng.getrandbits(32), rng.getrandbits(32), rng.getrandbits(32), avps, False)
        if h:
            msgs.append((h, avps))
    # one big message (~64 KiB)
    big = []
    size = 0
    while size < 60000:
        a = rng.choice(pool)
        big.append(a)
        size += len(gen.avpobj_wire(a))
    check_msg(1, 0x80, 999, 1, 2, 3, big, False)
    # 2b. the same codes under different vendors, at top level and inside groups
    # OctetString / undefined codes, so that random payloads are valid values
    twin_codes = [c for c in (25, 33, 44, 60000) if not any((c, v) in gk for v in (0, 10415, 99999))]
    for i in range(max(10, n_msgs // 10)):
        code_t = rng.choice(twin_codes)
        members = []
        for vendor in (0, 10415, 99999):
            members.append(gen.rfc_wire(code_t, vendor, (0x80 if vendor else 0) | 0x40, gen.rand_bytes(rng, rng.randrange(1, 9))))
        inner = b"".join(rng.sample(members, 3))
        g0 = gen.rfc_wire(456, 0, 0x40, inner)
        g1 = gen.rfc_wire(456, 10415, 0xc0, b"".join(rng.sample(members, 2)))
        body = b"".join(rng.sample(members + [g0, g1], 5))
        hexs = (gen.rfc_header(1, 20 + len(body), 0x80, rng.choice([999, 283, 5000]), 0, 1, 2) + body).hex()
        tree = gen.rfc_parse_avps(bytes.fromhex(hexs)[20:])
        paths = [[(code_t, 0)], [(code_t, 10415)], [(code_t, 99999)], [(456, 0), (code_t, 0)], [(456, 0), (code_t, 10415)],
                 [(456, 10415), (code_t, 0)], [(456, 0), (code_t, 99999)], [(code_t, 5)]]
        rng.shuffle(paths)
        line = f"FIND {hexs} " + " ".join("/".join(f"{c}_{v}" for c, v in p) for p in paths)
        r = d.add(line)
        for p, o in zip(paths, r.split(";")):
            want = oracle_find(tree, p, gk | {(456, 10415)} if dict_has(456, 10415) else gk)
            want_s = "[" + ",".join(f"{c}.{v}.{f}.{data.hex()}" for c, v, f, data in want) + "]"
            if o != want_s:
                fails.append({"what": "find_avps result differs from the AVPs at that path of the tree (wire order)",
                              "line": line[:400], "path": str(p), "real": o[:300], "expected": want_s[:300]})
    # 3. search
    for hexs, avps in msgs:
        if not avps:
            continue
        tree = gen.rfc_parse_avps(bytes.fromhex(hexs)[20:])
        paths = []
        for _ in range(4):
            path = []
            level = tree
            for depth in range(rng.randrange(1, 5)):
                if not level:
                    break
                c, v, f, data = rng.choice(level)
                path.append((c, v))
                if (c, v) in gk:
                    try:
                        level = gen.rfc_parse_avps(data)
                    except gen.WireError:
                        break
                else:
                    break
            if rng.random() < 0.2:
                path[-1] = (path[-1][0] + 1, path[-1][1])      # negative search
            if rng.random() < 0.1 and len(path) < 4:
                path.append((263, 0))                          # past a non-grouped AVP
            if path and path not in paths:
                paths.append(path)
        if rng.random() < 0.3 and paths:
            paths.append(paths[0])                             # repeated search: cache
        line = f"FIND {hexs} " + " ".join("/".join(f"{c}_{v}" for c, v in p) for p in paths)
        r = d.add(line)
        outs = r.split(";")
        for p, o in zip(paths, outs):
            try:
                want = oracle_find(tree, p, gk)
                want_s = "[" + ",".join(f"{c}.{v}.{f}.{data.hex()}" for c, v, f, data in want) + "]"
            except gen.WireError:
                continue
            if o != want_s:
                fails.append({"what": "find_avps result differs from the AVPs at that path of the tree (wire order)",
                              "line": line[:400], "path": str(p), "real": o[:300], "expected": want_s[:300]})
    # 4. run-time registration (real-only oracle)
    try:
        from diameter.message import Message, DefinedMessage
        from diameter.message import commands

        class XVerifCmd(DefinedMessage):
            code = 7777001
            name = "X-Verif"

            def __post_init__(self):
                self.header.command_code = self.code
                super().__post_init__()
        commands.register(XVerifCmd)
        m = Message.from_bytes(gen.rfc_header(1, 20, 0x80, 7777001, 0, 1, 2))
        ok = type(m) is XVerifCmd
        del commands.all_commands[7777001]
        m2 = Message.from_bytes(gen.rfc_header(1, 20, 0x80, 7777001, 0, 1, 2))
        from diameter.message import UndefinedMessage
        ok = ok and type(m2) is UndefinedMessage
        res.count("register")
        if not ok:
            fails.append({"what": "run-time registered command not dispatched / unknown code not generic", "line": "register()"})
        # registering a class for a code that already has one (a placeholder command of the library, a typed one, a code
        # registered a moment ago) replaces it: both R values and the generic decode use the new class
        for old_code in (283, 272, 7777002, 7777002):
            saved = commands.all_commands.get(old_code)

            class XVerifOver(DefinedMessage):
                code = old_code
                name = "X-Verif-Over"

                def __post_init__(self):
                    self.header.command_code = self.code
                    super().__post_init__()
            try:
                commands.register(XVerifOver)
                got = [type(Message.from_bytes(gen.rfc_header(1, 20, fl, old_code, 0, 1, 2))) for fl in (0x80, 0x00)]
                gotp = type(Message.from_bytes(gen.rfc_header(1, 20, 0x80, old_code, 0, 1, 2), plain_msg=True))
                res.count("register-over")
                if any(g is not XVerifOver for g in got) or gotp is not XVerifOver:
                    fails.append({"what": "a class registered at run time for a code that already had an implementation is not "
                                          "the one messages of that code decode to", "line": f"register() code {old_code}",
                                  "real": str([g.__name__ for g in got] + [gotp.__name__])})
            finally:
                if old_code in (283, 272):
                    commands.all_commands[old_code] = saved
        commands.all_commands.pop(7777002, None)
        # the three shapes a run-time command can have (one plain class; one class that sets flag defaults for newly built
        # messages in __post_init__, as the library's request classes do; a base class with type_factory and request/answer
        # subclasses with such defaults) x every flag octet x generic and typed decode: the decoded header carries the
        # flags of the wire, the instance is of the registered class, re-encoding reproduces the input
        from diameter.message import MessageHeader as _MH

        class XVPlain(DefinedMessage):
            code = 7777011
            name = "XV-Plain"

            def __post_init__(self):
                self.header.command_code = self.code
                super().__post_init__()

        class XVDefaults(DefinedMessage):
            code = 7777012
            name = "XV-Defaults"

            def __post_init__(self):
                self.header.command_code = self.code
                super().__post_init__()
                self.header.is_request = True
                self.header.is_proxyable = True

        class XVSplit(DefinedMessage):
            code = 7777013
            name = "XV-Split"

            def __post_init__(self):
                self.header.command_code = self.code
                super().__post_init__()

            @classmethod
            def type_factory(cls, header):
                return XVSplitReq if header.is_request else XVSplitAns

        class XVSplitReq(XVSplit):
            def __post_init__(self):
                super().__post_init__()
                self.header.is_request = True
                self.header.is_proxyable = True

        class XVSplitAns(XVSplit):
            def __post_init__(self):
                super().__post_init__()
                self.header.is_request = False
                self.header.is_proxyable = True
        shapes = [(XVPlain, lambda fl, plain: XVPlain), (XVDefaults, lambda fl, plain: XVDefaults),
                  (XVSplit, lambda fl, plain: XVSplit if plain else (XVSplitReq if fl & 0x80 else XVSplitAns))]
        body = gen.rfc_wire(263, 0, 0x40, b"s;1") + gen.rfc_wire(1, 0, 0x40, b"u")
        try:
            for cls, want_cls in shapes:
                commands.register(cls)
            for cls, want_cls in shapes:
                for fl in range(256):
                    wire = gen.rfc_header(1, 20 + len(body), fl, cls.code, 7, 0xfffffffe, 3) + body
                    for plain in (False, True):
                        res.count("register-shape")
                        m = Message.from_bytes(wire, plain_msg=plain)
                        bad = []
                        if type(m) is not want_cls(fl, plain):
                            bad.append(f"class {type(m).__name__}")
                        if m.header.command_flags != fl:
                            bad.append(f"flags {m.header.command_flags:#04x}")
                        if m.as_bytes() != wire:
                            bad.append("re-encoding differs")
                        if bad:
                            fails.append({"what": "a command registered at run time: decoded header flags / class / re-encoding "
                                                  "differ from the wire", "line": f"MSGDEC {wire.hex()} {int(plain)}",
                                          "real": f"{cls.__name__} flags={fl:#04x} plain={plain}: " + ", ".join(bad)})
                            break
                    else:
                        continue
                    break
        finally:
            for cls, _w in shapes:
                commands.all_commands.pop(cls.code, None)
    except Exception as ex:  # noqa
        fails.append({"what": f"commands.register raised {type(ex).__name__}: {ex}", "line": "register()"})
    # the flag properties of the header: each reads and writes exactly its bit (R 0x80, P 0x40, E 0x20, T 0x10), for every octet
    try:
        from diameter.message import MessageHeader
        bits = {"is_request": 0x80, "is_proxyable": 0x40, "is_error": 0x20, "is_retransmit": 0x10}
        bad = []
        for octet in range(256):
            for name, bit in bits.items():
                h = MessageHeader(command_flags=octet)
                if bool(getattr(h, name)) != bool(octet & bit):
                    bad.append(f"{name} of flags {octet:#04x} reads {getattr(h, name)}")
                for val in (True, False):
                    h = MessageHeader(command_flags=octet)
                    setattr(h, name, val)
                    want = (octet | bit) if val else (octet & ~bit)
                    if h.command_flags != want:
                        bad.append(f"{name}={val} on flags {octet:#04x} gives {h.command_flags:#04x}, expected {want:#04x}")
                    else:
                        packed = h.as_bytes() if hasattr(h, "as_bytes") else None
                res.cases += 1
        res.count("header-flag-properties", 256 * 4)
        if bad:
            fails.append({"what": "a header flag property does not read / write exactly its own bit: " + "; ".join(bad[:4]),
                          "line": "MessageHeader flag properties", "count": len(bad)})
    except Exception as ex:  # noqa
        fails.append({"what": f"header flag properties raised {type(ex).__name__}: {ex}", "line": "MessageHeader flag properties"})
    for s in d.lines[-3:]:
        res.sample({"line": s[:300]})
    return d


def run(res: Result, tier: str, seed: int):
    rng = random.Random(seed * 1000003 + 2)
    res.rule = ("every registered command code x flag octets x boundary ids: encode vs independent RFC header/AVP layout, "
                "plain decode (fields, AVP sequence, byte-exact re-encode), typed decode (class per name rule, header fields); "
                "random messages of 0..40 AVPs with nesting/repeats incl. one ~64 KiB; find_avps on 1..4-element paths vs an "
                "independent tree oracle; non-trivial = distinct lines not rejected by the real code")
    fails: list = []
    d = run_cases(res, rng, 250 if tier == "quick" else 5000, tier != "quick", fails)
    fails += racing_encoders(res)
    return fails, d.compare()


def racing_encoders(res: Result) -> list:
    """the writer threads of two connections inside `Message.as_bytes()` at the same time (harness/encrace.py, fresh
    interpreter): under every sampled single-preemption schedule each message is encoded as when it is encoded alone"""
    import json
    import os
    import subprocess
    import sys
    from common import REPO_SRC
    here = os.path.dirname(os.path.abspath(__file__))
    env = dict(os.environ, TZ="UTC", DV_REPO_SRC=REPO_SRC)
    try:
        p = subprocess.run([sys.executable, os.path.join(here, "encrace.py")], env=env, capture_output=True, text=True, timeout=600)
        doc = json.loads(p.stdout.strip().splitlines()[-1])
    except Exception as e:  # noqa
        return [{"what": "Message.as_bytes could not be run by two threads under a line-level schedule "
                         f"({type(e).__name__}: {str(e)[:200]})", "kind": "race", "line": "encrace.py"}]
    res.count("racing encoders (single-preemption schedules, real threads)", doc["schedules"])
    res.cases += doc["schedules"]
    res.extra["racing_encoder_schedules"] = doc["schedules"]
    res.rule += ("; two threads inside Message.as_bytes for different messages under every sampled single-preemption schedule: "
                 "each is encoded as when encoded alone; likewise two threads in find_avps on one freshly decoded message")
    return doc["fails"]


def signature(f: dict):
    return None


def search(res: Result, seed: int, broken) -> list:
    rng = random.Random(seed * 7919 + 23)
    fails: list = []
    r2 = Result(PROP, "thorough", seed)
    run_cases(r2, rng, 1500, True, fails)
    res.extra["search_cases"] = r2.cases
    return fails
