"""C11 — watchdog: idle sends one DWR, DWA restores ready, silence closes."""
from __future__ import annotations

import random

from common import Result
import nodegen
import nodecheck
from nodecheck import Obs, kv, parse_msg, parse_cfg

PROP = "C11"
MODULES = ["DV.Properties.C11", "DV.Properties.C11Hist", "DV.Properties.C11Dwr", "DV.Properties.C11Send"]
KEEP = {"OUT": None, "CONN": ["state", "live", "dwr"], "PEER": ["reason"]}
T0 = 1700000000


def simmod_build(msg: str) -> bytes:
    import sim as simmod
    return simmod.build_msg(msg)


def cfg_line(idle, dwa, p_idle="-", p_dwa="-", persistent=0, wait=99):
    return (f"NODE host=node.local;realm=realm.local;idle={idle};dwa={dwa};cer=50;cea=50;"
            f"peer:peer1.x,realm.local,{persistent},0,{wait},1,0,-,-,{p_dwa},{p_idle};app:4,1,0,b,0,0,-")


def oracle(line: str, obs: Obs):
    cfg = parse_cfg(line)
    p = cfg["peers"][0]
    idle = p["idle"] or cfg["idle"]
    dwa = p["dwa"] or cfg["dwa"]
    fails = []
    now = T0
    last_read, last_dwr, state = {}, {}, {}
    for ev, lines in obs.blocks:
        t = ev.split(" ")
        before = dict(state)
        if t[0] in ("adv", "advrx"):
            now += int(t[1])
        if t[0] == "req" and len(t) == 4:
            now += int(t[3])            # (a request nobody answers: the sender sits out its timeout, then the timers are checked)
        if t[0] in ("rx", "rxraw", "rxcut"):
            c = f"c{t[1]}"
            last_read[c] = now
        if t[0] == "advrx":
            last_read[f"c{t[2]}"] = now
        dwrs = {}
        for l in lines:
            if l.startswith("DWAOSI "):
                d = kv(l)
                # a received DWR is answered 2001 *with the node's Origin-State-Id*
                if d.get("rc") == "2001" and d.get("osi") != d.get("node"):
                    fails.append({"what": "the 2001 answer to a DWR does not carry the node's Origin-State-Id", "event": ev, "real": l})
            if l.startswith("OUT "):
                d = kv(l)
                c = l.split(" ")[1]
                if d["cmd"] == "280" and d["R"] == "1":
                    dwrs[c] = dwrs.get(c, 0) + 1
        for l in lines:
            if l.startswith("CONN "):
                c = l.split(" ")[1]
                d = kv(l)
                state[c] = d["state"]
        if t[0] == "acc" and not (set(state) - set(before)):
            fails.append({"what": "a connection arriving at the listening socket is not taken up any more (no watchdog can ever "
                                  "run on it)", "event": ev, "real": "no new connection after accept"})
        if t[0] in ("adv", "tick", "advrx") or (t[0] == "req" and len(t) == 4):
            for c, st in before.items():
                if t[0] == "advrx" and c == f"c{t[2]}":
                    continue            # (the connection that is being read: judged at the next timer check)
                n = dwrs.get(c, 0)
                if st == "READY":
                    due = now - last_read.get(c, now) > idle
                    if due and (n != 1 or state.get(c) != "WAITDWA"):
                        fails.append({"what": f"idle connection (nothing received for {now - last_read.get(c, now)} s > {idle} s) "
                                              f"was not sent exactly one DWR and marked as awaiting the DWA",
                                      "event": ev, "real": f"dwr={n} state={state.get(c)}"})
                    if not due and n:
                        fails.append({"what": "DWR sent although traffic arrived within the idle timeout", "event": ev,
                                      "real": f"dwr={n} idle_for={now - last_read.get(c, now)}"})
                    if due and n == 1:
                        last_dwr[c] = now
                elif st == "WAITDWA":
                    if n:
                        fails.append({"what": "second DWR sent while awaiting the DWA", "event": ev, "real": f"dwr={n}"})
                    late = now - last_dwr.get(c, now) > dwa
                    closed = state.get(c) == "CLOSED"
                    owner = next((kv(l).get("name") for l in lines if l.startswith(f"CONN {c} ")), None)
                    reason = next((kv(l)["reason"] for l in lines if l.startswith("PEER ") and l.split(" ")[1] == owner),
                                  next((kv(l)["reason"] for l in lines if l.startswith("PEER ")), "-"))
                    if late != closed or (closed and reason != "DWATO"):
                        fails.append({"what": f"connection awaiting a DWA for {now - last_dwr.get(c, now)} s (timeout {dwa} s): "
                                              f"expected {'closed with the watchdog-timeout reason' if late else 'still open'}",
                                      "event": ev, "real": f"state={state.get(c)} reason={reason}"})
        if t[0] == "busy":
            # one call of the I/O loop making k passes `ms` apart (the loop is woken several times a second): the timers are
            # evaluated all the same -- a silent ready connection gets its one DWR and, unanswered, is closed
            total = int(t[1]) * int(t[2]) // 1000
            now += total
            for c, st in before.items():
                if st == "READY" and total > (now - total - last_read.get(c, now - total)) + idle + dwa + 2:
                    n = dwrs.get(c, 0)
                    owner = next((kv(l).get("name") for l in lines if l.startswith(f"CONN {c} ")), None)
                    reason = next((kv(l)["reason"] for l in lines if l.startswith("PEER ") and l.split(" ")[1] == owner), "-")
                    # (the writer thread does not run inside that one call: the DWR itself may not have reached the socket --
                    # the watchdog-timeout reason shows that it was issued and not answered)
                    if n > 1 or state.get(c) != "CLOSED" or reason != "DWATO":
                        fails.append({"what": f"silent ready connection while the I/O loop is woken every {t[2]} ms for {total} s (idle "
                                              f"{idle} s, DWA timeout {dwa} s): expected one DWR and the close with the watchdog-timeout "
                                              "reason", "event": ev, "real": f"dwr={n} state={state.get(c)} reason={reason}"})
        if t[0] == "rx" and len(t) == 3:
            c = f"c{t[1]}"
            m = parse_msg(t[2])
            st = before.get(c)
            if m["cmd"] == 280 and not m["R"] and st == "WAITDWA" and state.get(c) != "READY":
                fails.append({"what": "DWA did not return the connection to ready", "event": ev, "real": state.get(c)})
            if st == "WAITDWA" and not (m["cmd"] == 280 and not m["R"]) and state.get(c) == "READY":
                fails.append({"what": "the connection stopped awaiting its DWA although no DWA was received (only a DWA returns it to "
                                      "ready; without one it is closed when the DWA timeout expires)", "event": ev, "real": state.get(c)})
            if m["cmd"] == 280 and m["R"] and st in ("READY", "WAITDWA"):
                outs = [kv(l) for l in lines if l.startswith(f"OUT {c} ")]
                if len(outs) != 1 or outs[0]["rc"] != "2001" or outs[0]["cmd"] != "280" or outs[0]["hbh"] != str(m["hbh"]):
                    fails.append({"what": "DWR not answered with a 2001 DWA", "event": ev, "real": str(outs)[:300]})
    return fails


def scenarios(rng: random.Random, tier: str):
    out = []
    vals = [1, 2, 3, 5] if tier == "quick" else [1, 2, 3, 4, 5, 7, 10, 20, 30, 60]
    h = [100]

    def nxt():
        h[0] += 1
        return h[0]
    for idle in vals:
        for dwa in vals:
            for rep in range(2 if tier == "quick" else 4):
                use_peer = rng.random() < 0.4
                line = cfg_line(rng.choice(vals) if use_peer else idle, rng.choice(vals) if use_peer else dwa,
                                idle if use_peer else "-", dwa if use_peer else "-")
                evs = ["start", "acc", "rx 0 " + nodegen.cer("peer1.x", "4", nxt(), nxt())]
                t = 0
                horizon = 10 * max(idle, dwa)
                while t < horizon and len(evs) < 40:
                    k = rng.random()
                    if k < 0.5:
                        dt = rng.choice([1, 1, 2, idle, idle + 1, dwa, dwa + 1, max(1, idle - 1)])
                        evs.append(f"adv {dt}")
                        t += dt
                    elif k < 0.65:
                        evs.append("rx 0 " + nodegen.dwr(nxt(), nxt()))
                    elif k < 0.85:
                        evs.append("rx 0 " + nodegen.dwa(nxt(), nxt()))
                    elif k < 0.95:
                        evs.append("rx 0 " + nodegen.ccr(nxt(), nxt()))
                    else:
                        evs.append("tick")
                out.append(line + " | " + " | ".join(evs))
    # outbound connection too
    for _ in range(10 if tier == "quick" else 100):
        idle, dwa = rng.choice(vals), rng.choice(vals)
        line = cfg_line(idle, dwa, persistent=1)
        evs = ["start ok", "rx 0 " + nodegen.cea(2001, "peer1.x", 2001, 268435464)]
        for _k in range(10):
            evs.append(rng.choice([f"adv {rng.choice([1, idle, idle + 1, dwa + 1])}", "rx 0 " + nodegen.dwa(nxt(), nxt()),
                                   "rx 0 " + nodegen.dwr(nxt(), nxt())]))
        out.append(line + " | " + " | ".join(evs))
    # per-peer timers on dialled and accepted connections whose peer announces its identity in another letter case than
    # the configured one (host names compare case-insensitively): the peer's timers apply all the same
    for spell in ("PEER1.X", "Peer1.x", "peer1.x"):
        for p_idle, p_dwa, n_idle, n_dwa in ((2, 1, 30, 4), (5, 2, 1, 1)) if tier == "quick" else ((2, 1, 30, 4), (5, 2, 1, 1), (3, 3, 10, 10), (1, 2, 7, 1)):
            tail = [f"adv {p_idle - 1}" if p_idle > 1 else "tick", "adv 1", "adv 1", f"adv {p_dwa}", "adv 1", f"adv {max(n_idle, n_dwa) + 1}", "tick"]
            line = cfg_line(n_idle, n_dwa, p_idle, p_dwa, persistent=1)
            out.append(line + " | " + " | ".join(["start ok", "rx 0 " + nodegen.cea(2001, spell, 2001, 268435464)] + tail))
            line = cfg_line(n_idle, n_dwa, p_idle, p_dwa)
            out.append(line + " | " + " | ".join(["start", "acc", "rx 0 " + nodegen.cer(spell, "4", nxt(), nxt())] + tail))
    # the I/O loop woken several times a second (one call of the loop function, passes half / a quarter of a second apart) for
    # longer than idle + DWA timeout: DWR and watchdog close happen all the same (real node only)
    for idle, dwa, ms in ((3, 2, 500), (2, 1, 250), (5, 3, 500)):
        total = idle + dwa + 4
        line = cfg_line(idle, dwa)
        out.append(line + " | start | acc | rx 0 " + nodegen.cer("peer1.x", "4", nxt(), nxt()) + f" | busy {total * 1000 // ms} {ms} | tick")
        line = cfg_line(30, 30, idle, dwa, persistent=1)
        out.append(line + " | start ok | rx 0 " + nodegen.cea(2001, "peer1.x", 2001, 268435464) + f" | busy {total * 1000 // ms} {ms} | tick")
    # a connection that was lost for another reason, re-established, and then times out on the watchdog:
    # the reason recorded must be the watchdog timeout (not the stale earlier one)
    for idle, dwa in ((2, 1), (3, 2)) if tier == "quick" else ((1, 1), (2, 1), (3, 2), (5, 3), (2, 5)):
        for loss in ("eof 0", "rerr 0 hard", "rx 0 " + nodegen.dpr(nxt(), nxt())):
            for inbound in (False, True):
                if inbound:
                    line = cfg_line(idle, dwa)
                    evs = ["start", "acc", "rx 0 " + nodegen.cer("peer1.x", "4", nxt(), nxt()), loss, "eof 0", "acc",
                           "rx 1 " + nodegen.cer("peer1.x", "4", nxt(), nxt())]
                else:
                    line = cfg_line(idle, dwa, persistent=1, wait=1)
                    evs = ["start ok", "rx 0 " + nodegen.cea(2001, "peer1.x", 2001, 268435464), loss, "eof 0", "adv 1", "adv 1",
                           "rx 1 " + nodegen.cea(2001, "peer1.x", 3001, 268435465)]
                evs += [f"adv {idle + 1}", f"adv {dwa}", "adv 1", "tick"]
                out.append(line + " | " + " | ".join(evs))
    # after one connection was given up by the watchdog the next one is watched the same way
    for idle, dwa in ((1, 1), (2, 1), (2, 3)):
        line = cfg_line(idle, dwa)
        evs = ["start", "acc", "rx 0 " + nodegen.cer("peer1.x", "4", nxt(), nxt()), f"adv {idle + 1}", f"adv {dwa + 1}", "acc",
               "rx 1 " + nodegen.cer("peer1.x", "4", nxt(), nxt()), f"adv {idle + 1}", "rx 1 " + nodegen.dwa(nxt(), nxt()),
               f"adv {idle + 1}", f"adv {dwa + 1}", "acc", "rx 2 " + nodegen.cer("peer1.x", "4", nxt(), nxt()), f"adv {idle + 1}"]
        out.append(line + " | " + " | ".join(evs))
    # the capabilities exchange completes some seconds after the transport came up: the idle period starts at the last read
    # (the CER / CEA), not at the accept / connect
    for idle, dwa in ((5, 3), (3, 2)):
        for late in (1, idle - 1, idle, idle + 2):
            line = cfg_line(idle, dwa)
            out.append(line + " | start | acc | adv %d | rx 0 %s | adv %d | adv 1 | adv 1 | adv %d" %
                       (late, nodegen.cer("peer1.x", "4", nxt(), nxt()), idle - 1, dwa + 1))
            line = cfg_line(idle, dwa, persistent=1)
            out.append(line + " | start ok | adv %d | rx 0 %s | adv %d | adv 1 | adv 1 | adv %d" %
                       (late, nodegen.cea(2001, "peer1.x", 2001, 268435464), idle - 1, dwa + 1))
    # the peer is silent while the node itself keeps sending requests: what the node sends is not traffic received
    for idle, dwa in ((5, 3), (4, 2)):
        line = cfg_line(idle, dwa)
        evs = ["start", "acc", "rx 0 " + nodegen.cer("peer1.x", "4", nxt(), nxt())]
        for _ in range(idle + dwa + 3):
            evs += [f"req 0 {nodegen.ccr(0, 0, 'node.local')} 1", "adv 1"]
        out.append(line + " | " + " | ".join(evs))
    # a long message trickling in, a few octets every second, for longer than the idle timeout: octets received are traffic
    big = simmod_build(nodegen.ccr(nxt(), nxt(), "peer1.x"))
    for idle, dwa in ((3, 2), (5, 3)):
        line = cfg_line(idle, dwa)
        evs = ["start", "acc", "rx 0 " + nodegen.cer("peer1.x", "4", nxt(), nxt())]
        step = max(4, len(big) // (idle * 3 + 2))
        for i in range(0, len(big), step):
            evs += ["adv 1", f"rxraw 0 {big[i:i + step].hex()}"]
        evs += ["adv 1", "adv 1", f"adv {idle}", f"adv {dwa + 1}"]
        out.append(line + " | " + " | ".join(evs))
    # the peer sends the beginning of a message and falls silent: idle, watchdog request, no answer, closed
    for idle, dwa in ((3, 2), (5, 3)):
        for k in (1, 12, 20, 40):
            line = cfg_line(idle, dwa)
            out.append(line + " | start | acc | rx 0 " + nodegen.cer("peer1.x", "4", nxt(), nxt()) + f" | adv 1 | rxraw 0 {big[:k].hex()}" +
                       f" | adv {idle} | adv 1 | adv {dwa} | adv 1 | adv 1")
    # two connections: one keeps talking (every read finds the clock advanced, no pass without a ready socket), the other is
    # silent: it gets its DWR when its idle timeout has passed and is given up when no DWA comes
    two_cfg = ("NODE host=node.local;realm=realm.local;idle={i};dwa={d};cer=50;cea=50;"
               "peer:peer1.x,realm.local,0,0,99,1,0,-,-,-,-;peer:peer2.x,realm.local,0,0,99,1,0,-,-,-,-;app:4,1,0,b,0,0+1,-")
    for idle, dwa in ((2, 2), (3, 1), (1, 3)):
        evs = ["start", "acc", "rx 0 " + nodegen.cer("peer1.x", "4", nxt(), nxt()), "acc", "rx 1 " + nodegen.cer("peer2.x", "4", nxt(), nxt())]
        for _k in range(idle + dwa + 3):
            evs.append("advrx 1 0 " + nodegen.dwr(nxt(), nxt(), "peer1.x"))
        out.append(two_cfg.format(i=idle, d=dwa) + " | " + " | ".join(evs))
    # a request is sent over the connection while its DWA is outstanding; the DWA then arrives in time
    for idle, dwa in ((2, 3), (3, 5)):
        line = cfg_line(idle, dwa)
        evs = ["start", "acc", "rx 0 " + nodegen.cer("peer1.x", "4", nxt(), nxt()), f"adv {idle + 1}",
               "req 0 " + nodegen.ccr(0, 0, "node.local") + " 1", "rx 0 " + nodegen.dwa(1001, 7), "adv 1", f"adv {dwa + 1}"]
        out.append(line + " | " + " | ".join(evs))
    return out


def run(res: Result, tier: str, seed: int):
    rng = random.Random(seed * 1000003 + 11)
    res.rule = ("virtual clock, 1 s grid: idle/dwa timeout pairs (node level and per peer) x random timelines of traffic, DWR, DWA "
                "and timer checks over 10x the largest timeout, inbound and outbound; oracle tracks last-read / DWR times "
                "independently; real vs model on OUT/CONN/PEER.reason")
    return nodecheck.run(res, scenarios(rng, tier), KEEP, oracle)


def signature(f: dict):
    return None


def search(res: Result, seed: int, broken) -> list:
    rng = random.Random(seed * 7919 + 59)
    r2 = Result(PROP, "thorough", seed)
    fails, _ = nodecheck.run(r2, scenarios(rng, "quick"), KEEP, oracle)
    return fails
