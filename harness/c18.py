"""C18 — graceful shutdown: DPR to ready peers, drain, refuse newcomers, stop all threads."""
from __future__ import annotations

import random

from common import Result
import nodegen
import nodecheck
from nodecheck import Obs, kv, parse_msg, parse_cfg

PROP = "C18"
MODULES = ["DV.Properties.C18", "DV.Properties.C18Hist", "DV.Properties.C18Stop", "DV.Properties.ConfigTie", "DV.Properties.C18Dpr", "DV.Properties.C18Begin"]
KEEP = {"OUT": None, "CONN": ["state", "live"], "PEER": ["conn", "reason"], "RES": ["socketsOpen", "workersLive"],
        "STOPPED": None, "RAISE": None, "CRASH": None, "APP": None}

CFG = ("NODE host=node.local;realm=realm.local;idle=5;dwa=30;cer=30;cea=30;"
       "peer:peer1.x,realm.local,0,0,30,1,0,-,-,-,-;peer:peer2.x,realm.local,0,0,30,1,0,-,-,-,-;"
       "peer:peer3.x,realm.local,1,1,2,1,0,-,-,-,-;app:4,1,0,b,0,0+1+2,-")


def oracle(line: str, obs: Obs):
    fails = []
    state, live, direction = {}, {}, {}
    for ev, lines in obs.blocks:
        t = ev.split(" ")
        if t[0] == "stopin":
            newc = [l for l in lines if l.startswith("CONN ") and l.split(" ")[1] not in state]
            if newc or any(l.startswith("OUT ") for l in lines):
                fails.append({"what": "a peer was dialled / something was sent although the node was already stopping (forced stop "
                                      "arriving while the I/O loop slept)", "event": ev[:200], "real": str(newc + [l for l in lines if l.startswith("OUT ")])[:300]})
            if not any(l == "STOPPED" for l in lines):
                fails.append({"what": "stop() did not return normally", "event": ev[:200], "real": ""})
        if any(l == "EVN stopflag" for l in lines):
            # another thread's stop() raised the flag inside this step (during the reconnect pass): from there on nothing is
            # dialled -- a connection object created for the dial is refused, never registered, and sends nothing
            i0 = lines.index("EVN stopflag")
            newc = {l.split(" ")[1]: kv(l) for l in lines[i0:] if l.startswith("CONN ") and l.split(" ")[1] not in state}
            for c, d in newc.items():
                sent = [l for l in lines[i0:] if l.startswith(f"OUT {c} ")]
                if d.get("live") != "0" or sent:
                    fails.append({"what": "a peer was dialled although stop() had already raised the stopping flag (stop() called "
                                          "while the I/O thread was inside its reconnect pass)", "event": ev[:200],
                                  "real": f"{c} {d} sent={sent[:2]}"})
        if t[0] == "stop":
            force = t[1] == "1"
            ready_before = [c for c, s in state.items() if s in ("READY", "WAITDWA") and live.get(c) == "1"]
            known_before = set(state)
            outs = [(l.split(" ")[1], kv(l)) for l in lines if l.startswith("OUT ")]
            dprs = [c for c, d in outs if d["cmd"] == "282" and d["R"] == "1"]
            if force:
                if dprs:
                    fails.append({"what": "forced stop sent a DPR", "event": ev[:200], "real": str(dprs)})
            elif t[2] == "0":
                # wait timeout 0: the DPRs are queued and the connections are closed in the same breath -- whether a DPR still
                # reaches the wire is not judged (only that nothing goes to a connection that was not ready)
                if [c for c in dprs if c not in ready_before]:
                    fails.append({"what": "stop sent a DPR to a connection that was not ready", "event": ev[:200], "real": str(dprs)})
            else:
                if sorted(dprs) != sorted(ready_before):
                    fails.append({"what": "stop did not send exactly one DPR to every ready connection (and to no other)",
                                  "event": ev[:200], "real": str(dprs), "expected": str(ready_before)})
                for c, d in outs:
                    if d["cmd"] == "282" and d["R"] == "1" and d["dc"] != "0":
                        fails.append({"what": "DPR without disconnect cause REBOOTING", "event": ev[:200], "real": str(d)})
            if any(d["cmd"] == "280" and d["R"] == "1" for c, d in outs):
                fails.append({"what": "watchdog request sent while stopping", "event": ev[:200], "real": str(outs)[:300]})
            conns = {l.split(" ")[1]: kv(l) for l in lines if l.startswith("CONN ")}
            # final state after stop returned: last CONN line per connection
            final = {}
            for l in lines:
                if l.startswith("CONN "):
                    final[l.split(" ")[1]] = kv(l)
            newcomers = [c for c in final if c not in known_before]
            for c in newcomers:
                first = next(kv(l) for l in lines if l.startswith(f"CONN {c} "))
                if first["live"] != "0":
                    fails.append({"what": "a connection arriving while the node is stopping was registered instead of being closed "
                                          "at once", "event": ev[:200], "real": f"{c} {first}"})
                served = [d for cc, d in outs if cc == c]
                if served:
                    fails.append({"what": "a connection arriving while the node is stopping was served / a peer was dialled",
                                  "event": ev[:200], "real": str(served)[:300]})
            # a connection whose DPA arrived and whose output could be flushed is closed then, not at the timeout
            for w in t[3:]:
                wt = w.split("_")
                if wt[0] == "block" and wt[2] == "0":
                    c = f"c{wt[1]}"
                    owner = [kv(l) for l in lines if l.startswith("PEER ")]
                    reasons = [p["reason"] for p in owner]
                    closes = [l for l in lines if l.startswith(f"CONN {c} ")]
                    # the block of the nested event in which the buffer drained must already show it closed
                    idx = next((i for i, l in enumerate(lines) if l.startswith("EVN block")), None)
                    if idx is not None:
                        after = [kv(l) for l in lines[idx:] if l.startswith(f"CONN {c} ")]
                        if after and after[0]["live"] == "1":
                            fails.append({"what": "connection not closed once its DPA had arrived and its pending output was flushed "
                                                  "(it sat out the wait timeout)", "event": ev[:200], "real": str(after[0])})
            # … and promptly: in the same step in which the DPA is read when nothing is waiting to be written
            blocked_now = {c for c in state if False}
            for evb, _ in obs.blocks:
                tb = evb.split(" ")
                if tb[0] == "block":
                    (blocked_now.add if tb[2] == "1" else blocked_now.discard)(f"c{tb[1]}")
                if evb == ev:
                    break
            sub_ev, sub = None, []
            subs = []
            for l in lines:
                if l.startswith("EVN "):
                    if sub_ev is not None:
                        subs.append((sub_ev, sub))
                    sub_ev, sub = l[4:], []
                elif sub_ev is not None:
                    sub.append(l)
            if sub_ev is not None:
                subs.append((sub_ev, sub))
            for sev, slines in subs:
                st = sev.split(" ")
                if st[0] == "block":
                    (blocked_now.add if st[2] == "1" else blocked_now.discard)(f"c{st[1]}")
                msgs = []
                if st[0] == "rx" and len(st) == 3:
                    msgs = [(f"c{st[1]}", st[2])]
                elif st[0] == "rxm":
                    msgs = [(f"c{p.split(':', 1)[0]}", p.split(":", 1)[1]) for p in st[1:]]
                for c, mtxt in msgs:
                    try:
                        m = parse_msg(mtxt)
                    except Exception:  # noqa
                        continue
                    if m["cmd"] == 282 and not m["R"] and c in dprs and c not in blocked_now:
                        after = next((kv(l) for l in slines if l.startswith(f"CONN {c} ")), None)
                        if after is not None and after["live"] == "1":
                            fails.append({"what": "connection not closed when its DPA arrived although nothing was waiting to be "
                                                  "written (it sat out the wait timeout)", "event": ev[:200], "nested": sev[:120],
                                          "real": f"{c} {after}"})
            if not any(l == "STOPPED" for l in lines):
                fails.append({"what": "stop() did not return normally", "event": ev[:200],
                              "real": str([l for l in lines if l.startswith(("RAISE", "CRASH"))])})
            # the applications are stopped (every one of them, whatever its kind) by the time stop() has returned
            napps = len(parse_cfg(line)["apps"])
            stopped = {l.split(" ")[1] for l in lines if l.startswith("APPSTOP ")}
            if any(l == "STOPPED" for l in lines) and stopped != {f"a{i}" for i in range(napps)}:
                fails.append({"what": "stop() returned without having stopped every application", "event": ev[:200],
                              "real": f"stopped: {sorted(stopped)} of {napps}"})
            sw = next((kv(l) for l in lines if l.startswith("STOPWAIT ")), None)
            advs = sum(int(w.split("_")[1]) for w in t[3:] if w.startswith("adv_"))
            if sw is not None and int(sw["dt"]) > int(t[2]) + advs + 1:
                fails.append({"what": "stop() kept waiting after the wait timeout had expired (the connections are closed then)",
                              "event": ev[:200], "real": str(sw), "timeout": t[2]})
            if sw is not None and not force and int(sw["registered"]) > 0 and int(sw["dt"]) < int(t[2]):
                fails.append({"what": "stop() stopped waiting before the wait timeout had expired although connections were still "
                                      "registered (they are closed when their DPA has arrived and their output is flushed, or at the "
                                      "timeout)", "event": ev[:200], "real": str(sw), "timeout": t[2]})
            lsn = next((kv(l) for l in reversed(lines) if l.startswith("LSN ")), {})
            if lsn.get("open", "0") != "0":
                fails.append({"what": "a listening socket is still open after stop returned", "event": ev[:200], "real": str(lsn)})
            still = [c for c, d in final.items() if d["live"] == "1"]
            resl = next((kv(l) for l in reversed(lines) if l.startswith("RES ")), {})
            if still or resl.get("socketsOpen") != "0" or resl.get("workersLive") != "0":
                fails.append({"what": "after stop returned a connection is still registered, a peer socket is open or a "
                                      "connection worker thread is still running", "event": ev[:200],
                              "real": f"live={still} {resl}"})
        for l in lines:
            if l.startswith("CONN "):
                c = l.split(" ")[1]
                d = kv(l)
                state[c] = d["state"]
                live[c] = d["live"]
    return fails


def scenarios(rng: random.Random, tier: str):
    out = []
    h = [1200]

    def n():
        h[0] += 1
        return h[0]
    names = ["peer1.x", "peer2.x"]
    # a dialled connection still awaiting its CEA when stop() begins gets no DPR; its CEA arrives inside the window and the
    # peer then stays silent beyond the idle timeout: no watchdog goes out while stopping
    for tmo in (8, 12):
        out.append(CFG + " | start ok | stop 0 %d rx_0_%s adv_6 adv_1 adv_6" % (tmo, nodegen.cea(2001, "peer3.x", n(), n())))
        out.append(CFG + " | start ok | acc | rx 1 " + nodegen.cer("peer1.x", "4", n(), n()) +
                   " | stop 0 %d rx_0_%s adv_6 rx_1_%s adv_6" % (tmo, nodegen.cea(2001, "peer3.x", n(), n()), nodegen.dpa(n(), n(), "peer1.x")))
    # a forced stop() called while the I/O loop sleeps; the reconnect deadline of the persistent peer passes during that sleep:
    # the pass the loop is in must not dial any more
    for pre_adv, dt in ((1, 1), (1, 2), (0, 2), (1, 5)):
        out.append(CFG + f" | start fail | adv {pre_adv} | stopin 1 {dt}")
        out.append(CFG + f" | start fail | acc | rx 1 " + nodegen.cer("peer1.x", "4", n(), n()) + f" | adv {pre_adv} | stopin 1 {dt}")
    # stop() called by another thread while the I/O thread is inside its reconnect pass -- past the pass's own look at the
    # stopping flag, in front of the dial: the peer is not dialled (its connection is refused, nothing is sent), with and
    # without other connections, forced or not (real node only: the model's stop is one step)
    mc = CFG.replace("NODE ", "NODE midconnect=1;")
    for plan, redial in (("fail", "ok"), ("fail", "inp"), ("ok", "ok")):
        lose = "" if plan == "fail" else " | rx 0 " + nodegen.cea(2001, "peer3.x", n(), n()) + " | eof 0"
        for force, tmo in ((0, 4), (1, 1)):
            out.append(mc + f" | start {plan}{lose} | dial {redial} | armstop | adv 2 | tick | stop {force} {tmo} adv_1")
            out.append(mc + f" | start {plan}{lose} | acc | rx 1 " + nodegen.cer("peer1.x", "4", n(), n()) +
                       f" | dial {redial} | armstop | adv 2 | tick | stop {force} {tmo} rx_1_{nodegen.dpa(n(), n(), 'peer1.x')} adv_1")
    # two ready peers whose DPAs arrive in the same pass of the I/O loop
    for tmo in (3, 6):
        pre2 = (CFG + " | start fail | acc | rx 1 " + nodegen.cer("peer1.x", "4", n(), n()) + " | acc | rx 2 " +
                nodegen.cer("peer2.x", "4", n(), n()))
        out.append(pre2 + f" | stop 0 {tmo} rxm_1:{nodegen.dpa(n(), n(), 'peer1.x')}_2:{nodegen.dpa(n(), n(), 'peer2.x')}")
    # one peer with two established connections, both ready when stop() is called: each gets its DPR and is closed on its DPA
    for tmo in (3, 6):
        pre2 = (CFG + " | start fail | acc | rx 1 " + nodegen.cer("peer1.x", "4", n(), n()) + " | acc | rx 2 " +
                nodegen.cer("peer1.x", "4", n(), n()))
        out.append(pre2 + f" | stop 0 {tmo} rx_1_{nodegen.dpa(n(), n(), 'peer1.x')} rx_2_{nodegen.dpa(n(), n(), 'peer1.x')}")
        out.append(pre2 + f" | stop 0 {tmo} rx_2_{nodegen.dpa(n(), n(), 'peer1.x')} rx_1_{nodegen.dpa(n(), n(), 'peer1.x')}")
        out.append(pre2 + f" | stop 0 {tmo} rx_2_{nodegen.dpa(n(), n(), 'peer1.x')}")
        out.append(pre2 + f" | eof 1 | stop 0 {tmo} rx_2_{nodegen.dpa(n(), n(), 'peer1.x')}")
    for rep in range(120 if tier == "quick" else 2500):
        evs = ["start " + rng.choice(["ok", "inp", "fail"])]
        # conn 0 is the dial to persistent peer3
        k = 1
        conn_ready = []
        if evs[0].endswith("ok") and rng.random() < 0.6:
            evs.append("rx 0 " + nodegen.cea(2001, "peer3.x", n(), n()))
            conn_ready.append((0, "peer3.x"))
        for i in range(rng.randrange(0, 3)):
            evs.append("acc")
            st = rng.choice(["connected", "ready", "ready", "waitdwa", "disconnecting"])
            if st != "connected":
                evs.append(f"rx {k} " + nodegen.cer(names[i], "4", n(), n()))
                conn_ready.append((k, names[i]))
                if st == "disconnecting":
                    evs.append(f"rx {k} " + nodegen.dpr(n(), n(), names[i]))
                    conn_ready.pop()
            k += 1
        if conn_ready and rng.random() < 0.3:
            # a request of the peer that the application has not answered (and never will) when stop() is called
            c_, nm_ = rng.choice(conn_ready)
            evs.append(f"rx {c_} " + nodegen.ccr(n(), n(), nm_))
        if any(True for _ in conn_ready) and rng.random() < 0.3:
            evs.append("adv 6")           # idle -> DWR sent -> WAITDWA
        force = rng.choice([0, 0, 0, 1])
        tmo = rng.choice([0, 1, 2, 3])
        nested = []
        for c, nm in conn_ready:
            beh = rng.choice(["dpa", "dpa", "never", "eof", "dpa_then_more", "dwa_then_dpa", "dpa_err", "rerr", "rerr_soft_dpa"])
            if beh == "rerr":            # the transport fails with an errno of the hard class instead of an answer
                nested.append(f"rerr_{c}_" + rng.choice(["hard", "hardT", "hardU", "hardN", "hardR", "hardO"]))
            elif beh == "rerr_soft_dpa":  # a spurious wake-up (soft errno), then the answer
                nested.append(f"rerr_{c}_" + rng.choice(["soft", "softB", "softS", "softI", "softW"]))
                nested.append(f"rx_{c}_" + nodegen.dpa(n(), n(), nm))
            elif beh == "dpa":
                nested.append(f"rx_{c}_" + nodegen.dpa(n(), n(), nm))
            elif beh == "eof":
                nested.append(f"eof_{c}")
            elif beh == "dpa_err":           # (a DPA is a DPA whatever its Result-Code, also without one)
                nested.append(f"rx_{c}_" + nodegen.dpa(n(), n(), nm).replace("rc=2001", rng.choice(["rc=5012", "rc=3004", "rc=3002"])))
            elif beh == "dwa_then_dpa":      # (the answer to a watchdog request sent before the stop arrives first)
                nested.append(f"rx_{c}_" + nodegen.dwa(n(), n(), nm))
                nested.append(f"rx_{c}_" + nodegen.dpa(n(), n(), nm))
            elif beh == "dpa_then_more":
                nested.append(f"rx_{c}_" + nodegen.dpa(n(), n(), nm))
                nested.append(f"rx_{c}_" + nodegen.dwr(n(), n(), nm))
        # output backed up while the DPA arrives, then the peer drains it
        blocked = []
        if conn_ready and not force and rng.random() < 0.35:
            c, nm = rng.choice(conn_ready)
            evs.append(f"block {c} 1")
            blocked.append(c)
            nested = [x for x in nested if not x.startswith((f"rx_{c}_", f"eof_{c}", f"rerr_{c}_"))]
            nested += [f"rx_{c}_" + nodegen.dpa(n(), n(), nm), f"block_{c}_0"]
        if rng.random() < 0.3:
            nested.append("acc")
            if rng.random() < 0.5:          # ... and the newcomer sends its CER
                nested.append(f"rx_{k}_" + nodegen.cer(rng.choice(names), "4", n(), n()))
        if rng.random() < 0.2:
            nested.append("adv_3")
        evs.append(f"stop {force} {tmo} " + " ".join(nested))
        out.append(CFG.replace("NODE ", f"NODE addrs={rng.choice([1, 1, 2, 3])};") + " | " + " | ".join(evs))
    # a transport fault (every errno class) on one peer's socket inside the window, the other peer answers promptly
    for kind in ("hardT", "hardU", "hardN", "hard", "softB", "softI"):
        pre2 = (CFG + " | start fail | acc | rx 1 " + nodegen.cer("peer1.x", "4", n(), n()) + " | acc | rx 2 " +
                nodegen.cer("peer2.x", "4", n(), n()))
        out.append(pre2 + f" | stop 0 4 rerr_1_{kind} rx_2_{nodegen.dpa(n(), n(), 'peer2.x')} rx_1_{nodegen.dpa(n(), n(), 'peer1.x')}")
    # a request of the peer still unanswered by the application when the DPA arrives: closed then all the same
    for tmo in (3, 5):
        out.append(CFG + " | start fail | acc | rx 1 " + nodegen.cer("peer1.x", "4", n(), n()) + " | rx 1 " + nodegen.ccr(n(), n(), "peer1.x") +
                   f" | stop 0 {tmo} rx_1_" + nodegen.dpa(n(), n(), "peer1.x"))
    # wait timeout 0, peers that never answer / half-open connections: closed at once
    pre0 = CFG + " | start fail | acc | rx 1 " + nodegen.cer("peer1.x", "4", n(), n()) + " | acc"
    out.append(pre0 + " | stop 0 0")
    out.append(pre0 + " | stop 0 0 adv_1 adv_1")
    # the DPA carries an error result / no result code
    for rc in ("rc=5012", "rc=3004"):
        out.append(CFG + " | start fail | acc | rx 1 " + nodegen.cer("peer1.x", "4", n(), n()) +
                   " | stop 0 3 rx_1_" + nodegen.dpa(n(), n(), "peer1.x").replace("rc=2001", rc))
    # a connection awaiting its DWA when stop() is called; the peer answers in order: DWA, then DPA (also in one read)
    for tmo in (2, 3):
        pre = CFG + " | start fail | acc | rx 1 " + nodegen.cer("peer1.x", "4", n(), n()) + " | adv 6"
        out.append(pre + f" | stop 0 {tmo} rx_1_{nodegen.dwa(n(), n(), 'peer1.x')} rx_1_{nodegen.dpa(n(), n(), 'peer1.x')}")
        out.append(pre + f" | stop 0 {tmo} rx_1_{nodegen.dwa(n(), n(), 'peer1.x')} adv_1 rx_1_{nodegen.dpa(n(), n(), 'peer1.x')}")
    return out


def run(res: Result, tier: str, seed: int):
    rng = random.Random(seed * 1000003 + 18)
    res.rule = ("nodes with 0..3 connections in every state (connecting, awaiting CER/CEA, ready, awaiting DWA, disconnecting) x "
                "peers that answer the DPR promptly, never, close, or keep talking x newcomers and reconnect deadlines inside the "
                "shutdown window x force x wait timeouts 1..3; stop() runs on the virtual clock (each sleep(1) = one virtual "
                "second + one I/O pass); oracle on frames, connection and worker status; real vs model")
    return nodecheck.run(res, scenarios(rng, tier), KEEP, oracle)


def signature(f: dict):
    return None


def search(res: Result, seed: int, broken) -> list:
    rng = random.Random(seed * 7919 + 83)
    r2 = Result(PROP, "thorough", seed)
    fails, _ = nodecheck.run(r2, scenarios(rng, "quick"), KEEP, oracle)
    return fails
