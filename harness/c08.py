"""C08 — requests reach exactly the matching application, else the specified error."""
from __future__ import annotations

import itertools
import random

from common import Result
import gen
import nodegen
import nodecheck
from nodecheck import Obs, kv, parse_msg, parse_cfg

PROP = "C08"
MODULES = ["DV.Properties.C08", "DV.Properties.C08Tables", "DV.Properties.C08Hist", "DV.Properties.C08One", "DV.Properties.C08Err"]
KEEP = {"OUT": None, "APP": None, "CRASH": None}

CFG = ("NODE host=node.local;realm=realm.local;peer:peer1.x,realm.local,0,0,30,1,0,-,-,-,-;"
       "peer:peer2.x,realm.local,0,0,30,1,0,-,-,-,-;peer:peer3.x,realm.local,0,0,30,1,0,-,-,-,-;"
       "app:4,1,0,b,0,0,other.realm;app:4,1,0,b,0,1,-;app:3,0,1,b,0,0+1,-")


def typed_request_classes():
    from diameter.message import DefinedMessage
    import diameter.message.commands as C
    out = []

    def subs(c):
        for s in c.__subclasses__():
            yield s
            yield from subs(s)
    for c in subs(DefinedMessage):
        if c.__name__.endswith("Request") and c.avp_def:
            try:
                o = c()
                if o.header.is_request:
                    out.append(c)
            except Exception:
                pass
    return out


def required_unfilled(cls):
    """Required scalar attributes the constructor leaves None (independent of validate_message_avps)."""
    o = cls()
    out = []
    for d in cls.avp_def:
        if d.is_required and getattr(o, d.attr_name, None) is None:
            out.append(d)
    return out


def full_request(cls, rng, hbh, e2e, host, realm, app):
    """A request of class cls with every required attribute set (type-directed values)."""
    import c03
    import realcodec
    from diameter.message import Message
    sd = realcodec.side()
    pool = []
    ast = c03.gen_obj(cls, rng, "none", 0, pool, 2)
    fields = []
    for d in cls.avp_def:
        if not d.is_required:
            continue
        aid = sd["name_id"][d.attr_name]
        if c03.is_list_attr(cls, d.attr_name):
            v = c03.gen_value(d, rng, 0, pool, 2)
            fields.append((aid, ("M", [v]) if d.type_class is not None else ("L", [v[1]])))
        else:
            fields.append((aid, c03.gen_value(d, rng, 0, pool, 2)))
    ast = ("O", ast[1], fields, [])
    o = realcodec.build_obj(realcodec.parse_fval(c03.fval_str(ast))[0])
    if any(d.attr_name == "origin_host" for d in cls.avp_def):
        o.origin_host = host.encode()
    if any(d.attr_name == "destination_realm" for d in cls.avp_def):
        o.destination_realm = realm.encode()
    o.header.application_id = app
    o.header.hop_by_hop_identifier = hbh
    o.header.end_to_end_identifier = e2e
    return o.as_bytes()


def drop_avps(wire: bytes, drop: set) -> bytes:
    """Remove the top-level AVPs with (code, vendor) in `drop` (independent parser)."""
    h = gen.rfc_parse_header(wire)
    body = b"".join(gen.rfc_wire(c, v, f, d) for c, v, f, d in gen.rfc_parse_avps(wire[20:]) if (c, v) not in drop)
    return gen.rfc_header(h[0], 20 + len(body), h[2], h[3], h[4], h[5], h[6]) + body


def oracle(line: str, obs: Obs):
    cfg = parse_cfg(line)
    fails = []
    peers = [p["name"] for p in cfg["peers"]]
    realms = {cfg["realm"]: []}
    # (a realm for which the node has a default peer is served: requests for it are routed there)
    for p in cfg["peers"]:
        if p["default"]:
            realms.setdefault(p["realm"], [])
    # routing table, in the order Node.add_application builds it
    for ai, a in enumerate(cfg["apps"]):
        for pi in a["peers"]:
            for r in [cfg["peers"][pi]["realm"]] + a["realms"]:
                realms.setdefault(r, [])
                ent = next((e for e in realms[r] if e[0] == ai), None)
                if ent is None:
                    ent = (ai, [])
                    realms[r].append(ent)
                ent[1].append(pi)
    conn_peer, state = {}, {}
    raising: dict = {}       # application index -> its handler raises
    first_ce = {}            # connection -> Origin-Host of the first CER read on it (who the connection belongs to)
    meta = getattr(oracle, "meta", {})
    for ev, lines in obs.blocks:
        t = ev.split(" ")
        if t[0] == "outcome":
            raising[int(t[1])] = t[2].startswith("raise")
        if t[0] == "anon":
            first_ce[f"c{t[1]}"] = "ghost.x"
        if t[0] == "rx" and len(t) == 3:
            c = f"c{t[1]}"
            m = parse_msg(t[2])
            if m["R"] and m["cmd"] == 257 and c not in first_ce and "oh" in m["keys"]:
                first_ce[c] = m["keys"]["oh"]
            if m["R"] and m["cmd"] not in (257, 280, 282) and state.get(c) in ("READY", "WAITDWA") and not m["T"]:
                outs = [kv(l) for l in lines if l.startswith("OUT " + c + " ")]
                apps = [l for l in lines if l.startswith("APP ") and " REQ " in l]
                info = meta.get(t[2])
                if info is None:
                    continue
                want_missing = sorted(info["missing"])
                pi = peers.index(conn_peer[c]) if conn_peer.get(c) in peers else None
                if want_missing:
                    exp = ("err", 5005)
                elif not info["has_dr"]:
                    exp = ("err", 3007)
                elif info["realm"] not in realms:
                    exp = ("err", 3003)
                else:
                    ai = next((ai for ai, ps in realms[info["realm"]]
                               if cfg["apps"][ai]["id"] == m["app"] and (pi is None or pi in ps)), None)
                    exp = ("app", ai) if ai is not None else ("err", 3007)
                if exp[0] == "app" and raising.get(exp[1]):
                    want = f"APP a{exp[1]} REQ cmd={m['cmd']} hbh={m['hbh']} e2e={m['e2e']}"
                    if apps != [want] or len(outs) != 1 or outs[0]["rc"] != "5012" or outs[0]["hbh"] != str(m["hbh"]):
                        fails.append({"what": "a request whose handling failed (the handler raised) is not answered by the node with 5012",
                                      "event": ev[:300], "real": str(apps + [str(o) for o in outs])[:400]})
                elif exp[0] == "app":
                    want = f"APP a{exp[1]} REQ cmd={m['cmd']} hbh={m['hbh']} e2e={m['e2e']}"
                    if apps != [want] or outs:
                        fails.append({"what": "valid request not handed exactly once to the matching application (and to no other)",
                                      "event": ev[:300], "real": str(apps + [str(o) for o in outs])[:400], "expected": want})
                else:
                    ok = (not apps and len(outs) == 1 and outs[0]["rc"] == str(exp[1]) and outs[0]["hbh"] == str(m["hbh"]))
                    if ok and exp[1] == 5005 and info["ans_has_fa"]:
                        got = outs[0]["fa"].strip("[]")
                        ok = sorted(int(x) for x in got.split("+") if x) == want_missing
                    if not ok:
                        fails.append({"what": f"request not answered by the node with the specified error {exp[1]} "
                                              f"(Failed-AVP = missing AVPs {want_missing}) / shown to an application",
                                      "event": ev[:300], "real": str(apps + [str(o) for o in outs])[:500]})
            if m["cmd"] in (257, 280, 282):
                apps = [l for l in lines if l.startswith("APP ") and (" REQ " in l or " ANS " in l)]
                if apps:
                    fails.append({"what": "base-protocol message handed to an application", "event": ev[:200], "real": apps[0]})
        for l in lines:
            if l.startswith("CONN "):
                c = l.split(" ")[1]
                d = kv(l)
                state[c] = d["state"]
                # the configured peer of a connection: the name it was dialled under, else the identity it announced
                # (identities are host names: compared without regard to case)
                nm = d["name"] if d["name"] != "-" else d["ident"]
                if d["dir"] == "R" and c in first_ce:
                    nm = first_ce[c]        # an accepted connection belongs to the peer that opened it with its CER
                conn_peer[c] = next((p for p in peers if p.lower() == nm.lower()), nm)
    return fails


def scenarios(rng: random.Random, tier: str):
    out = []
    meta = {}
    classes = typed_request_classes()
    hbh = [1000]

    def handshake(k, peer):
        hbh[0] += 1
        return f"rx {k} " + nodegen.cer(peer, "4+3", hbh[0], 8000 + hbh[0], extra=",acct=3")
    pre = CFG + " | start | acc | acc | acc | " + handshake(0, "peer1.x") + " | " + handshake(1, "peer2.x") + " | " + handshake(2, "peer3.x")
    for cls in classes:
        try:
            req_defs = required_unfilled(cls)
        except Exception:
            continue
        has_dr = any(d.attr_name == "destination_realm" for d in cls.avp_def)
        ans_cls = type(cls().to_answer())
        ans_has_fa = any(d.attr_name == "failed_avp" for d in getattr(ans_cls, "avp_def", ()))
        subsets = [()]
        if len(req_defs) <= 6 and tier != "quick":
            for r in range(1, len(req_defs) + 1):
                subsets += list(itertools.combinations(range(len(req_defs)), r))
        else:
            subsets += [(i,) for i in range(len(req_defs))]
            for _ in range(3 if tier == "quick" else 20):
                k = rng.randrange(1, len(req_defs) + 1) if req_defs else 0
                if k:
                    subsets.append(tuple(sorted(rng.sample(range(len(req_defs)), k))))
        evs = []
        for sub in subsets:
            hbh[0] += 1
            realm = rng.choice(["realm.local", "realm.local", "other.realm", "foreign.realm"])
            app = rng.choice([4, 4, 3, 77])
            conn = rng.choice([0, 1, 2])
            try:
                wire = full_request(cls, rng, hbh[0], 9000 + hbh[0], ["peer1.x", "peer2.x", "peer3.x"][conn], realm, app)
            except Exception as e:  # noqa
                continue
            drop = {(req_defs[i].avp_code, req_defs[i].vendor_id) for i in sub}
            wire = drop_avps(wire, drop)
            desc = "X" + wire.hex()
            dropped_dr = any(req_defs[i].attr_name == "destination_realm" for i in sub)
            meta[desc] = {"missing": [req_defs[i].avp_code for i in sub], "has_dr": has_dr, "realm": realm,
                          "ans_has_fa": ans_has_fa, "cls": cls.__name__}
            evs.append(f"rx {conn} {desc}")
            if rng.random() < 0.15:
                hbh[0] += 1
                evs.append(f"rx {conn} " + nodegen.dwr(hbh[0], 9000 + hbh[0], ["peer1.x", "peer2.x", "peer3.x"][conn]))
        # chunks of events so that one scenario stays short
        for i in range(0, len(evs), 12):
            out.append(pre + " | " + " | ".join(evs[i:i + 12]))
    # handler raises -> 5012
    out.append(pre + " | outcome 0 raise | rx 0 " + nodegen.ccr(77001, 77002, "peer1.x"))
    # routing table corners: one application registered for peers of different realms; connections the node
    # dialled itself, the peer announcing its name in another spelling; a known peer configured for no application
    def req(conn, host, realm, app=4):
        hbh[0] += 1
        d = nodegen.ccr(hbh[0], 9000 + hbh[0], host, realm, app)
        meta[d] = {"missing": [], "has_dr": True, "realm": realm, "ans_has_fa": True, "cls": "CreditControlRequest"}
        return f"rx {conn} {d}"
    # the handler fails -- with an ordinary exception, one without arguments, the library's own not-routable error (a handler
    # that forwards the request and finds no peer for it): 5012, and the next request is handled like any other
    for how in ("raise", "raise0", "raisenr"):
        out.append(pre + f" | outcome 0 {how} | " + req(0, "peer1.x", "realm.local") + " | " + req(0, "peer1.x", "realm.local") +
                   " | outcome 0 answer | " + req(0, "peer1.x", "realm.local"))
    xr = ("NODE host=node.local;realm=realm.local;peer:peer1.x,realm.local,0,0,30,1,0,-,-,-,-;"
          "peer:peer2.x,realm.b,0,0,30,1,0,-,-,-,-;peer:peer3.x,realm.c,0,0,30,1,0,-,-,-,-;"
          "app:4,1,0,b,0,0+1,-;app:3,0,1,b,0,1+2,extra.realm")
    prex = xr + " | start | acc | acc | acc | " + handshake(0, "peer1.x") + " | " + handshake(1, "peer2.x") + " | " + handshake(2, "peer3.x")
    for conn, host in ((0, "peer1.x"), (1, "peer2.x"), (2, "peer3.x")):
        out.append(prex + " | " + " | ".join(req(conn, host, r, a) for r in ("realm.local", "realm.b", "realm.c", "extra.realm", "foreign.realm")
                                             for a in (4, 3)))
    # … the same after one of the connections has gone (the routing table is not rewritten by a disconnect)
    for gone in (0, 1, 2):
        rest = [c for c in (0, 1, 2) if c != gone]
        out.append(prex + f" | eof {gone} | tick | " + " | ".join(
            req(c, f"peer{c + 1}.x", r, a) for c in rest for r in ("realm.local", "realm.b", "realm.c", "extra.realm") for a in (4, 3)))
    # a configured peer that serves no application sits in a realm of its own: that realm is not served (3003, not 3007)
    xk = ("NODE host=node.local;realm=realm.local;peer:peer1.x,realm.local,0,0,30,1,0,-,-,-,-;"
          "peer:peer2.x,partner.org,0,0,30,1,0,-,-,-,-;peer:peer3.x,realm.local,0,0,30,1,0,-,-,-,-;"
          "app:4,1,0,b,0,0,-")
    prek = xk + " | start | acc | acc | " + handshake(0, "peer1.x") + " | " + handshake(1, "peer2.x")
    out.append(prek + " | " + " | ".join(req(c, h, r, a) for c, h in ((0, "peer1.x"), (1, "peer2.x"))
                                         for r in ("realm.local", "partner.org", "foreign.realm") for a in (4, 77)))
    # the capabilities exchange announced only some of the node's applications (or a relay id, or other ids altogether): a
    # request for any registered application of that peer is delivered all the same
    for announced in (("4", ""), ("", ",acct=3"), ("99", ",acct=98"), ("4294967295", ""), ("3", ",acct=4")):
        hbh[0] += 1
        ce = f"rx 1 " + nodegen.cer("peer2.x", announced[0], hbh[0], 8000 + hbh[0], extra=announced[1])
        out.append(xr + " | start | acc | acc | " + handshake(0, "peer1.x") + " | " + ce + " | " +
                   " | ".join(req(1, "peer2.x", r, a) for r in ("realm.local", "realm.b") for a in (4, 3)))
    # realm names written with capitals in the configuration, requests naming them the same way
    xc = ("NODE host=node.local;realm=realm.local;peer:peer1.x,Alpha.NET,0,0,30,1,0,-,-,-,-;"
          "peer:peer2.x,realm.local,0,0,30,1,0,-,-,-,-;app:4,1,0,b,0,0+1,Roaming.Example")
    prec = xc + " | start | acc | acc | " + handshake(0, "peer1.x") + " | " + handshake(1, "peer2.x")
    out.append(prec + " | " + " | ".join(req(c, h, r, a) for c, h in ((0, "peer1.x"), (1, "peer2.x"))
                                         for r in ("Alpha.NET", "Roaming.Example", "realm.local", "Foreign.Realm") for a in (4, 77)))
    # a request arriving while the node waits for the answer to its own watchdog request (still a ready connection), and after
    idl = CFG.replace("NODE ", "NODE idle=5;dwa=30;")
    for k in (0, 1):
        hbh[0] += 3
        out.append(idl + " | start | acc | acc | " + handshake(0, "peer1.x") + " | " + handshake(1, "peer2.x") + " | adv 6 | " +
                   " | ".join(req(k, f"peer{k + 1}.x", "realm.local", a) for a in (4, 3)) +
                   f" | rx {k} " + nodegen.dwa(2001 + 1000 * k, 268435464 + k, f"peer{k + 1}.x") + " | " +
                   " | ".join(req(k, f"peer{k + 1}.x", "realm.local", a) for a in (4, 3)))
    # no peer and no application peer carries the node's own realm: the own realm is served all the same (3007, not 3003)
    xo = ("NODE host=node.local;realm=realm.local;peer:peer1.x,alpha.net,0,0,30,1,0,-,-,-,-;"
          "peer:peer2.x,beta.net,0,0,30,1,1,-,-,-,-;app:4,1,0,b,0,0,roam.net")
    preo = xo + " | start | acc | acc | " + handshake(0, "peer1.x") + " | " + handshake(1, "peer2.x")
    out.append(preo + " | " + " | ".join(req(c, h, r, a) for c, h in ((0, "peer1.x"), (1, "peer2.x"))
                                         for r in ("realm.local", "alpha.net", "beta.net", "roam.net", "foreign.realm") for a in (4, 77)))
    dial = ("NODE host=node.local;realm=realm.local;peer:peer1.x,realm.local,1,0,30,1,0,-,-,-,-;"
            "peer:peer2.x,realm.local,1,0,30,1,0,-,-,-,-;peer:peer3.x,realm.local,1,0,30,1,0,-,-,-,-;"
            "app:4,1,0,b,0,0,-;app:4,1,0,b,0,1,-")
    for spell in (str, str.upper, str.capitalize):
        pred = dial + " | start ok,ok,ok | " + " | ".join(
            f"rx {k} " + nodegen.cea(2001, spell(f"peer{k + 1}.x"), 2001 + 1000 * k, 268435464 + k, auth="4") for k in range(3))
        out.append(pred + " | " + " | ".join(req(k, f"peer{k + 1}.x", "realm.local") for k in range(3)))
    # base-protocol traffic in between: a further CER on an established connection, naming another configured peer, does
    # not change whose requests these are
    for other in ("peer2.x", "peer3.x"):
        hbh[0] += 1
        again = f"rx 0 " + nodegen.cer(other, "4+3", hbh[0], 8000 + hbh[0], extra=",acct=3")
        hbh[0] += 1
        out.append(CFG + " | start | acc | " + handshake(0, "peer1.x") + " | " + req(0, "peer1.x", "realm.local", 4) + " | " + again +
                   " | rx 0 " + nodegen.dwr(hbh[0], 9000 + hbh[0]) + " | " +
                   " | ".join(req(0, "peer1.x", r, a) for r in ("realm.local", "other.realm") for a in (4, 3)))
    # a configured peer with two ready connections (the node accepts a second one): requests over either are this peer's,
    # also after the first connection has gone and over the survivor
    for who, other in (("peer1.x", "peer2.x"), ("peer2.x", "peer1.x")):
        two = CFG + " | start | acc | acc | acc | " + handshake(0, who) + " | " + handshake(1, who) + " | " + handshake(2, other)
        rq = lambda: " | ".join(req(c, who, r, a) for c in (1, 0) for r in ("realm.local", "other.realm") for a in (4, 3))  # noqa: E731
        out.append(two + " | " + rq() + " | rx 1 " + nodegen.dwr(hbh[0] + 500, 9500 + hbh[0]) + " | eof 0 | tick | " +
                   " | ".join(req(1, who, r, a) for r in ("realm.local", "other.realm") for a in (4, 3)))
        out.append(two + " | eof 1 | tick | " + " | ".join(req(0, who, r, a) for r in ("realm.local", "other.realm") for a in (4, 3)))
    # "unknown" peers of the quantifier: a ready connection that resolves to none of the configured peers gets the first
    # application with the request's id (no history of the node produces such a connection; the scenario makes one)
    for conn in (0, 1, 2):
        out.append(pre + f" | anon {conn} | " + " | ".join(req(conn, "ghost.x", r, a) for r in ("realm.local", "other.realm", "foreign.realm")
                                                         for a in (4, 3, 77)))
        out.append(prex + f" | anon {conn} | " + " | ".join(req(conn, "ghost.x", r, a) for r in ("realm.local", "realm.b", "extra.realm")
                                                          for a in (4, 3)))
    # an application of the node first *sends* a request of its own towards a realm (served with a ready peer, served by
    # another application only, not served at all: the last is refused as not routable) -- what the node answers to
    # requests *arriving* for that realm afterwards is what it answers on a node that never sent anything
    for cfgpre, ais in ((pre, (0, 2)), (prex, (0, 1))):
        for realm in ("foreign.realm", "other.realm", "realm.local", "Foreign.Realm"):
            for ai in ais:
                snd = f"req {ai} {nodegen.ccr(0, 0, 'node.local', realm)} 1"
                out.append(cfgpre + f" | {snd} | tick | " + " | ".join(req(c, f"peer{c + 1}.x", r, a) for c in (0, 1)
                                                                      for r in (realm, "realm.local") for a in (4, 77)) +
                           f" | {snd} | tick | " + req(2, "peer3.x", realm, 4))
    oracle.meta = meta
    return out


def run(res: Result, tier: str, seed: int):
    rng = random.Random(seed * 1000003 + 8)
    res.rule = ("every typed request class x subsets of its required scalar AVPs removed (single removals + random subsets quick; "
                "all subsets up to 6 thorough) x application ids {4,3,77} x realms {own, additional, foreign} x 3 peers x 3 "
                "applications (same id on different peers), interleaved with watchdogs; oracle computed from the class tables "
                "and the routing rule; real vs model on OUT/APP")
    sc = scenarios(rng, tier)
    res.extra["typed_request_classes"] = len(typed_request_classes())
    fails, div = nodecheck.run(res, sc, KEEP, oracle)
    fails = fails + racing_validation(res)
    return fails, div


def racing_validation(res: Result) -> list:
    """the reader threads of two connections inside `validate_message_avps` at the same time (harness/valrace.py, fresh
    interpreter): under every single-preemption schedule each call reports what it reports alone"""
    import json
    import os
    import subprocess
    import sys
    from common import REPO_SRC
    here = os.path.dirname(os.path.abspath(__file__))
    env = dict(os.environ, TZ="UTC", DV_REPO_SRC=REPO_SRC)
    try:
        p = subprocess.run([sys.executable, os.path.join(here, "valrace.py")], env=env, capture_output=True, text=True, timeout=600)
        doc = json.loads(p.stdout.strip().splitlines()[-1])
    except Exception as e:  # noqa
        return [{"what": "validate_message_avps could not be run by two threads under a line-level schedule "
                         f"({type(e).__name__}: {str(e)[:200]})", "kind": "race", "line": "valrace.py"}]
    res.count("racing validations (single-preemption schedules, real threads)", doc["schedules"])
    res.cases += doc["schedules"]
    res.extra["racing_validation_schedules"] = doc["schedules"]
    res.rule += ("; two reader threads inside validate_message_avps for requests of one command under every single-preemption "
                 "schedule from fresh module state: each reports what it reports alone")
    return doc["fails"]


def signature(f: dict):
    return None


def search(res: Result, seed: int, broken) -> list:
    rng = random.Random(seed * 7919 + 53)
    r2 = Result(PROP, "thorough", seed)
    fails, _ = nodecheck.run(r2, scenarios(rng, "quick"), KEEP, oracle)
    return fails
