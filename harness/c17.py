"""C17 — retransmitted (T-flag) duplicates of answered requests are rejected, no others."""
from __future__ import annotations

import random

from common import Result
import nodegen
import nodecheck
from nodecheck import Obs, kv, parse_msg, parse_cfg

PROP = "C17"
MODULES = ["DV.Properties.C17", "DV.Properties.C17One", "DV.Properties.ConfigTie"]
KEEP = {"OUT": None, "APP": None}


def cfg_line(rq):
    return (f"NODE host=node.local;realm=realm.local;rq={rq};idle=9999;peer:peer1.x,realm.local,0,0,30,1,0,-,-,-,-;"
            f"peer:peer2.x,realm.local,0,0,30,1,0,-,-,-,-;app:4,1,0,b,0,0+1,-")


def oracle(line: str, obs: Obs):
    cfg = parse_cfg(line)
    rq = cfg["rq"]
    fails = []
    window: dict[str, list] = {}       # origin -> e2e ids of the most recent answers (bounded by rq)
    pending: dict[str, dict] = {}      # conn -> (hbh, e2e) -> origin
    ready = set()
    for ev, lines in obs.blocks:
        t = ev.split(" ")
        if t[0] == "rx" and len(t) == 3:
            c = f"c{t[1]}"
            m = parse_msg(t[2])
            if m["R"] and m["cmd"] == 272 and c in ready and "oh" in m["keys"]:
                oh = m["keys"]["oh"]
                dup = m["T"] and m["e2e"] in window.get(oh, [])
                apps = [l for l in lines if l.startswith("APP ") and " REQ " in l]
                outs = [kv(l) for l in lines if l.startswith(f"OUT {c} ")]
                if dup:
                    if apps or len(outs) != 1 or outs[0]["rc"] != "5012":
                        fails.append({"what": "T-flagged repeat of an already answered request (same origin and end-to-end id, "
                                              "within the window) not rejected with 5012 / delivered to an application again",
                                      "event": ev[:200], "real": str(apps + [str(o) for o in outs])[:300],
                                      "window": str(window)})
                else:
                    if not apps or any(o["rc"] == "5012" for o in outs):
                        fails.append({"what": "request rejected as a duplicate although it carries no T flag or its identifiers "
                                              "have not been answered (within the window)", "event": ev[:200],
                                      "real": str(apps + [str(o) for o in outs])[:300], "window": str(window)})
                pending.setdefault(c, {})[(m["hbh"], m["e2e"])] = oh
            elif m["R"] and "oh" in m["keys"]:
                pending.setdefault(c, {})[(m["hbh"], m["e2e"])] = m["keys"]["oh"]
        for l in lines:
            if l.startswith("OUT "):
                c = l.split(" ")[1]
                d = kv(l)
                if d["R"] == "0":
                    key = (int(d["hbh"]), int(d["e2e"]))
                    oh = pending.get(c, {}).pop(key, None)
                    if oh is not None:
                        w = window.setdefault(oh, [])
                        w.append(key[1])
                        if len(w) > rq:
                            del w[0]
            if l.startswith("CONN "):
                if kv(l)["state"] in ("READY", "WAITDWA"):
                    ready.add(l.split(" ")[1])
    return fails


def scenarios(rng: random.Random, tier: str):
    out = []
    h = [600]

    def n():
        h[0] += 1
        return h[0]
    for rq in (1, 2, 3, 4):
        for rep in range(12 if tier == "quick" else 150):
            pre = (cfg_line(rq) + " | start | acc | acc | rx 0 " + nodegen.cer("peer1.x", "4", n(), n()) +
                   " | rx 1 " + nodegen.cer("peer2.x", "4", n(), n()))
            evs = []
            pool = rng.choice([[7001, 7002, 7003], [0, 1, 4294967295], [0, 7001, 2147483648]])      # boundary identifiers too
            nreq = 0
            unanswered = []
            for _ in range(rng.randrange(4, 13)):
                origin = rng.choice([0, 0, 1])
                e2e = rng.choice(pool)
                flags = rng.choice([192, 208, 208])
                # hop-by-hop ids: mostly fresh, sometimes equal on the two connections
                hbh = n() if rng.random() < 0.7 else 555
                evs.append(f"rx {origin} " + nodegen.ccr(hbh, e2e, ["peer1.x", "peer2.x"][origin], flags=flags))
                unanswered.append(nreq)
                nreq += 1
                if rng.random() < 0.75 and unanswered:
                    k = unanswered.pop(rng.randrange(len(unanswered))) if rng.random() < 0.8 else rng.randrange(0, nreq)
                    evs.append(f"ans 0 {k} 2001")
            out.append(pre + " | " + " | ".join(evs))
    # failover (RFC 6733 5.5.4): answered on one connection, the connection is lost, the origin comes back on a new
    # connection and repeats the request with the T flag (and sends one it never sent before)
    for rq in (1, 2, 4):
        for loss in ("eof 0", "rerr 0 hard", "rx 0 " + nodegen.dpr(n(), n(), "peer1.x") + " | eof 0"):
            pre = cfg_line(rq) + " | start | acc | rx 0 " + nodegen.cer("peer1.x", "4", n(), n())
            evs = ["rx 0 " + nodegen.ccr(n(), 7200, "peer1.x"), "ans 0 0 2001", loss, "acc",
                   "rx 1 " + nodegen.cer("peer1.x", "4", n(), n()),
                   "rx 1 " + nodegen.ccr(n(), 7200, "peer1.x", flags=208), "rx 1 " + nodegen.ccr(n(), 7201, "peer1.x", flags=208),
                   "ans 0 1 2001", "rx 1 " + nodegen.ccr(n(), 7201, "peer1.x", flags=208)]
            out.insert(0, pre + " | " + " | ".join(evs))
    # an answered id comes back without the T flag (a new request: delivered) and, while that one is still pending, with it
    for rq in (1, 2, 4):
        pre = cfg_line(rq) + " | start | acc | rx 0 " + nodegen.cer("peer1.x", "4", n(), n())
        evs = ["rx 0 " + nodegen.ccr(n(), 7600, "peer1.x"), "ans 0 0 2001", "rx 0 " + nodegen.ccr(n(), 7600, "peer1.x"),
               "rx 0 " + nodegen.ccr(n(), 7600, "peer1.x", flags=208), "ans 0 1 2001", "rx 0 " + nodegen.ccr(n(), 7600, "peer1.x", flags=208)]
        out.insert(0, pre + " | " + " | ".join(evs))
    # answers without a Result-Code (an application answering with an Experimental-Result only): the request has been
    # answered all the same, its repeat is rejected
    for rq in (1, 2, 4):
        pre = cfg_line(rq) + " | start | acc | rx 0 " + nodegen.cer("peer1.x", "4", n(), n())
        evs = ["rx 0 " + nodegen.ccr(n(), 7700, "peer1.x"), "ans 0 0 -", "rx 0 " + nodegen.ccr(n(), 7700, "peer1.x", flags=208),
               "rx 0 " + nodegen.ccr(n(), 7701, "peer1.x", flags=208), "ans 0 1 -", "rx 0 " + nodegen.ccr(n(), 7701, "peer1.x", flags=208),
               "rx 0 " + nodegen.ccr(n(), 7702, "peer1.x"), "ans 0 2 2001", "rx 0 " + nodegen.ccr(n(), 7701, "peer1.x", flags=208),
               "rx 0 " + nodegen.ccr(n(), 7700, "peer1.x", flags=208)]
        out.insert(0, pre + " | " + " | ".join(evs))
    # the node option that switches the validation of received requests off has nothing to do with repeats
    for rq in (1, 2, 4):
        pre = cfg_line(rq).replace("NODE ", "NODE noval=1;") + " | start | acc | rx 0 " + nodegen.cer("peer1.x", "4", n(), n())
        evs = ["rx 0 " + nodegen.ccr(n(), 7500, "peer1.x"), "ans 0 0 2001", "rx 0 " + nodegen.ccr(n(), 7500, "peer1.x", flags=208),
               "rx 0 " + nodegen.ccr(n(), 7501, "peer1.x", flags=208), "ans 0 1 2001", "rx 0 " + nodegen.ccr(n(), 7501, "peer1.x", flags=208)]
        out.insert(0, pre + " | " + " | ".join(evs))
    # origin hosts spelled with capitals (the window of an origin is found whatever the spelling bookkeeping uses)
    for rq in (1, 2, 4):
        for spell in ("Peer1.X", "PEER1.X"):
            pre = cfg_line(rq) + " | start | acc | rx 0 " + nodegen.cer(spell, "4", n(), n())
            evs = ["rx 0 " + nodegen.ccr(n(), 7400, spell), "ans 0 0 2001", "rx 0 " + nodegen.ccr(n(), 7400, spell, flags=208),
                   "rx 0 " + nodegen.ccr(n(), 7401, spell, flags=208), "ans 0 1 2001", "rx 0 " + nodegen.ccr(n(), 7401, spell, flags=208)]
            out.insert(0, pre + " | " + " | ".join(evs))
    # two origins use the same end-to-end id at the same time (both pending, then both answered / only one answered),
    # then each repeats its request with the T flag
    for rq in (1, 2, 4):
        pre = (cfg_line(rq) + " | start | acc | acc | rx 0 " + nodegen.cer("peer1.x", "4", n(), n()) +
               " | rx 1 " + nodegen.cer("peer2.x", "4", n(), n()))
        for e in (7300, 0):
            both = ["rx 0 " + nodegen.ccr(n(), e, "peer1.x"), "rx 1 " + nodegen.ccr(n(), e, "peer2.x")]
            rep = ["rx 0 " + nodegen.ccr(n(), e, "peer1.x", flags=208), "rx 1 " + nodegen.ccr(n(), e, "peer2.x", flags=208)]
            out.insert(0, pre + " | " + " | ".join(both + ["ans 0 0 2001", "ans 0 1 2001"] + rep))
            out.insert(0, pre + " | " + " | ".join(both + ["ans 0 1 2001", "ans 0 0 2001"] + rep[::-1]))
            out.insert(0, pre + " | " + " | ".join(both + ["ans 0 0 2001"] + rep))
            out.insert(0, pre + " | " + " | ".join(both + ["ans 0 1 2001"] + rep))
    # the same id answered twice (repeat without T), window just full, then a T-flagged repeat
    for rq in (2, 3, 4):
        pre = (cfg_line(rq) + " | start | acc | rx 0 " + nodegen.cer("peer1.x", "4", n(), n()))
        evs = []
        ids = [7100, 7100] + [7101 + i for i in range(rq - 1)]
        for i, e in enumerate(ids):
            evs.append("rx 0 " + nodegen.ccr(n(), e, "peer1.x"))
            evs.append(f"ans 0 {i} 2001")
        evs.append("rx 0 " + nodegen.ccr(n(), 7100, "peer1.x", flags=208))
        evs.append("rx 0 " + nodegen.ccr(n(), 7101, "peer1.x", flags=208))
        out.insert(0, pre + " | " + " | ".join(evs))
    return out


def run(res: Result, tier: str, seed: int):
    rng = random.Random(seed * 1000003 + 17)
    res.rule = ("sequences of up to 8 (quick) / 12 (thorough) requests from 2 origin hosts on 2 connections, T flag in {0,1}, "
                "end-to-end ids from a pool of 3, answered or pending at the time of the repeat, retransmit queue sizes 1..4; "
                "oracle keeps its own window of answered ids per origin; real vs model on OUT/APP")
    return nodecheck.run(res, scenarios(rng, tier), KEEP, oracle)


def signature(f: dict):
    return None


def search(res: Result, seed: int, broken) -> list:
    rng = random.Random(seed * 7919 + 71)
    r2 = Result(PROP, "thorough", seed)
    fails, _ = nodecheck.run(r2, scenarios(rng, "quick"), KEEP, oracle)
    return fails
