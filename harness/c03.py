"""C03 — typed command / grouped attributes map 1:1 onto dictionary AVPs and round-trip."""
from __future__ import annotations

import random

from common import Result
import gen
from codecdiff import Diff, build_pool

PROP = "C03"
MODULES = ["DV.Properties.C03", "DV.Properties.C03Round", "DV.Properties.C03Nested", "DV.Properties.C03Tables"]


def dict_entry(code, vendor):
    from realcodec import A
    return A.get_avp_dictionary_entry(code, vendor)


def ty_of_def(d):
    from realcodec import ty_of
    e = dict_entry(d.avp_code, d.vendor_id)
    if e is None:
        return None
    return ty_of(e["type"](0))


def default_is_list(cls, name, _cache={}):
    """the attribute holds a list right after construction"""
    key = (cls, name)
    if key not in _cache:
        try:
            _cache[key] = isinstance(getattr(cls(), name), list)
        except Exception:
            _cache[key] = False
    return _cache[key]


def is_list_attr(cls, name, _cache={}):
    """a repeatable attribute: its annotation is `list[...]`, or it is a list after construction (the quantifier's
    "list attributes" are the declared ones: a declared list that is not initialised as one is a defect, not a scalar)"""
    key = (cls, name)
    if key not in _cache:
        try:
            is_list = isinstance(getattr(cls(), name), list)
        except Exception:
            is_list = False
        ann = None
        for k in reversed(cls.__mro__):
            ann = (getattr(k, "__annotations__", {}) or {}).get(name, ann)
        if ann is not None:
            txt = ann if isinstance(ann, str) else getattr(ann, "__name__", "") + str(ann)
            is_list = is_list or str(txt).replace("typing.", "").lstrip().lower().startswith("list")
        _cache[key] = is_list
    return _cache[key]


def gen_value(d, rng, depth, pool, max_depth):
    """AST for one attribute value of definition d (type-directed, valid)."""
    from realcodec import side
    sd = side()
    ty = ty_of_def(d)
    if d.type_class is not None:
        return gen_obj(d.type_class, rng, "random", depth + 1, pool, max_depth)
    if ty is None:
        ty = gen.T_OCT
    if ty == gen.T_GRP:
        lit = rng.choice(gen.valid_values(gen.T_GRP, rng, 3, avp_pool=pool))
    else:
        vals = gen.valid_values(ty, rng, 10)
        lit = rng.choice(vals)
    return ("S", lit)


def gen_obj(cls, rng, mode, depth, pool, max_depth, only=None):
    """('O', cls_id, [(attr_id, ast)], [extra avpobj]) for class cls.
    mode: none | single (only=def index) | random | all"""
    from realcodec import side
    sd = side()
    cid = sd["id_by_cls"][cls]
    fields = []
    defs = list(cls.avp_def)
    for i, d in enumerate(defs):
        if mode == "none":
            take = False
        elif mode == "single":
            take = (i == only)
        elif mode == "all":
            take = True
        else:
            take = rng.random() < (0.5 if depth == 0 else 0.35)
        if not take:
            continue
        if d.type_class is not None and depth >= max_depth:
            continue
        aid = sd["name_id"][d.attr_name]
        if any(a == aid for a, _ in fields):
            continue                    # attribute declared twice: set it once
        if is_list_attr(cls, d.attr_name):
            n = rng.choice([0, 1, 2, 3]) if mode != "single" else rng.choice([1, 2])
            items = [gen_value(d, rng, depth, pool, max_depth) for _ in range(n)]
            if d.type_class is not None:
                fields.append((aid, ("M", items)))
            else:
                fields.append((aid, ("L", [x[1] for x in items])))
        else:
            fields.append((aid, gen_value(d, rng, depth, pool, max_depth)))
    extra = []
    from diameter.message import Message as _M
    try:
        supports_extra = issubclass(cls, _M) or hasattr(cls(), "additional_avps")
    except Exception:
        supports_extra = False
    if pool and supports_extra and mode in ("random", "all") and rng.random() < 0.3:
        # undeclared extras: AVPs whose (code, vendor) the class does not declare
        declared = {(d.avp_code, d.vendor_id) for d in defs}
        for _ in range(rng.randrange(1, 3)):
            a = rng.choice(pool)
            c, v = a.split(".")[:2]
            if (int(c), int(v)) not in declared:
                extra.append(a)
        if defs and rng.random() < 0.5:
            # … and "near misses" of a declared one: the same code under vendor ids beyond 16 bits (the library's own vendor
            # table has 81000 and 16777216), the neighbouring code under vendor 65536, code and vendor swapped, high bits set --
            # pairs that a sloppy look-up key would confuse with the declared pair
            d0 = rng.choice(defs)
            c0, v0 = d0.avp_code, d0.vendor_id
            for (c, v) in rng.sample([(c0, v0 + 65536), (c0 - 1, 65536), (c0, 81000), (c0, 16777216), (c0, 4294967295), (c0 | (1 << 24), v0),
                                      (v0, c0), (c0, v0 ^ 0x80000000), ((c0 + (v0 >> 16)) & 0xffffffff, v0 & 0xffff)], 2):
                if c > 0 and 0 <= v <= 0xffffffff and (c, v) not in declared and A_dict_entry(c, v) is None:
                    extra.append(f"{c}.{v}.{128 if v else 0}.{rng.randrange(1 << 32):08x}")
    return ("O", cid, fields, extra)


def A_dict_entry(c: int, v: int):
    from diameter.message.avp import avp as _A
    return _A.get_avp_dictionary_entry(c, v)


def fval_str(ast) -> str:
    k = ast[0]
    if k == "U":
        return "U"
    if k == "S":
        return "S" + ast[1]
    if k == "L":
        return "L[" + ",".join(ast[1]) + "]"
    if k == "M":
        return "M[" + ",".join(fval_str(x) for x in ast[1]) + "]"
    if k == "C":
        return f"C{ast[1]}"
    if k == "O":
        fs = ";".join(f"{a}={fval_str(v)}" for a, v in sorted(ast[2], key=lambda p: p[0]))
        return f"O{ast[1]}{{{fs}}}[" + ",".join(ast[3]) + "]"
    raise RuntimeError


def canonical(ast, cls):
    """The FVal literal a decode must restore: setter literals → getter
    literals, empty lists kept, unset omitted."""
    from realcodec import side
    sd = side()
    k = ast[0]
    if k == "O":
        c = sd["cls_by_id"][ast[1]]
        defs = {sd["name_id"][d.attr_name]: d for d in c.avp_def}
        fields = dict(ast[2])
        out = []
        # list attributes exist (possibly empty) after construction
        dflt = int_defaults(c)
        for d in c.avp_def:
            aid = sd["name_id"][d.attr_name]
            if aid not in fields and default_is_list(c, d.attr_name):
                fields[aid] = ("M", []) if d.type_class is not None else ("L", [])
            elif aid not in fields and d.attr_name in dflt:
                fields[aid] = ("S", f"i:{dflt[d.attr_name]}")
        for aid, v in sorted(fields.items()):
            d = defs[aid]
            ty = ty_of_def(d) or gen.T_OCT
            if v[0] == "S":
                out.append(f"{aid}=S{gen.canonical_value(ty, v[1])}")
            elif v[0] == "L":
                out.append(f"{aid}=L[" + ",".join(gen.canonical_value(ty, x) for x in v[1]) + "]")
            elif v[0] == "M":
                out.append(f"{aid}=M[" + ",".join(canonical(x, None) for x in v[1]) + "]")
            elif v[0] == "O":
                out.append(f"{aid}=" + canonical(v, None))
        return f"O{ast[1]}{{" + ";".join(out) + "}[" + ",".join(ast[3]) + "]"
    raise RuntimeError


def expected_avps(ast) -> list[tuple[int, int, int, bytes]]:
    """Independent statement of 'exactly one AVP per set scalar attribute, one
    per list element, code/vendor/M of the definition, then the extras'."""
    from realcodec import side
    sd = side()
    c = sd["cls_by_id"][ast[1]]
    fields = dict(ast[2])
    out = []
    dflt = int_defaults(c)
    for d in c.avp_def:
        aid = sd["name_id"][d.attr_name]
        if aid not in fields:
            if d.attr_name in dflt:
                fields[aid] = ("S", f"i:{dflt[d.attr_name]}")   # filled in by the constructor
            else:
                continue
        v = fields[aid]
        e = dict_entry(d.avp_code, d.vendor_id)
        ty = ty_of_def(d) or gen.T_OCT
        m = d.is_mandatory if d.is_mandatory is not None else (e or {}).get("mandatory")
        flags = (0x80 if d.vendor_id else 0) | (0x40 if m else 0)

        def one(x):
            if x[0] == "S":
                return gen.rfc_data(ty, x[1])
            if x[0] == "O":
                return b"".join(gen.rfc_wire(*t) for t in expected_avps(x))
            raise RuntimeError
        if v[0] == "L":
            for lit in v[1]:
                out.append((d.avp_code, d.vendor_id, flags, gen.rfc_data(ty, lit)))
        elif v[0] == "M":
            for x in v[1]:
                out.append((d.avp_code, d.vendor_id, flags, one(x)))
        else:
            out.append((d.avp_code, d.vendor_id, flags, one(v)))
    for a in ast[3]:
        cc, vv, ff, pp = a.split(".")
        out.append((int(cc), int(vv), int(ff), bytes.fromhex(pp)))
    return out


def int_defaults(cls, _cache={}):
    """Scalar attributes the constructor fills in (e.g. auth_application_id = 4)."""
    if cls not in _cache:
        out = {}
        try:
            o = cls()
            names = {d.attr_name for d in cls.avp_def}
            for k, v in vars(o).items():
                if k in names and isinstance(v, int) and not isinstance(v, bool):
                    out[k] = v
        except Exception:
            pass
        _cache[cls] = out
    return _cache[cls]


def all_classes():
    from realcodec import side
    sd = side()
    out = []
    for cid_s in sd["class_defs"]:
        c = sd["cls_by_id"].get(int(cid_s))
        if c is not None and getattr(c, "avp_def", None):
            out.append(c)
    return out


def run_cases(res: Result, rng: random.Random, n_random: int, max_depth: int, fails: list, classes=None):
    from diameter.message import Message
    d = Diff(res)
    pool = build_pool(d, rng, 40, 2, 8)

    def check(cls, ast, what):
        lit = fval_str(ast)
        line = f"TYPED {lit}"
        r = d.add(line)
        res.count("mode:" + what)
        if r.startswith("EXC"):
            fails.append({"what": "setting valid attribute values / generating AVPs raised", "cls": cls.__name__,
                          "mode": what, "line": line[:1500], "real": r})
            return
        try:
            exp = expected_avps(ast)
        except Exception as ex:  # noqa
            fails.append({"what": f"oracle cannot state the expectation ({type(ex).__name__}: {ex})",
                          "cls": cls.__name__, "line": line[:1500]})
            return
        exp_s = "[" + ",".join(f"{c}.{v}.{f}.{p.hex()}" for c, v, f, p in exp) + "]"
        if r != exp_s:
            fails.append({"what": "generated AVPs are not exactly one per set attribute / list element with the "
                                  "definition's code, vendor, M flag (then the undeclared extras)",
                          "cls": cls.__name__, "mode": what, "line": line[:1500], "real": r[:800], "expected": exp_s[:800]})
            return
        avps = r[1:-1].split(",") if r != "[]" else []
        want = canonical(ast, cls)
        if issubclass(cls, Message):
            hexs = d.add(f"MSGENC 1 {rng.choice([0x80, 0x00, 0xc0, 0x40])} {cls.code} 4 {rng.getrandbits(32)} {rng.getrandbits(32)} {r}")
            if hexs.startswith("EXC"):
                return
            # decode as the same class: pick the R bit the class belongs to
            from c02 import expected_class
            for rbit in (0x80, 0x00):
                if expected_class(cls.code, bool(rbit)) is cls:
                    b = bytearray(bytes.fromhex(hexs))
                    b[4] = (b[4] & 0x7f) | rbit
                    hexs2 = bytes(b).hex()
                    r2 = d.add(f"MSGDEC {hexs2} 0")
                    if r2.startswith("EXC"):
                        fails.append({"what": "decoding the generated message raised", "cls": cls.__name__,
                                      "line": f"MSGDEC {hexs2[:600]} 0", "real": r2})
                        return
                    t = r2.split(" ")
                    if t[8] == "OBJ":
                        if t[9] != want:
                            fails.append({"what": "decoding does not restore the attribute values that were set",
                                          "cls": cls.__name__, "line": f"MSGDEC {hexs2[:600]} 0", "real": t[9][:800],
                                          "expected": want[:800]})
                        elif t[-1] != hexs2:
                            fails.append({"what": "encode-decode-encode differs from encode", "cls": cls.__name__,
                                          "line": f"MSGDEC {hexs2[:600]} 0", "real": t[-1][:400], "expected": hexs2[:400]})
                    break
        else:
            from realcodec import side
            cid = side()["id_by_cls"][cls]
            r2 = d.add(f"ASSIGN {cid} {r}")
            if r2.startswith("EXC"):
                fails.append({"what": "assigning the generated AVPs to a fresh container raised", "cls": cls.__name__,
                              "line": f"ASSIGN {cid} {r[:600]}", "real": r2})
                return
            if r2 != want:
                fails.append({"what": "decoding does not restore the attribute values that were set",
                              "cls": cls.__name__, "line": f"ASSIGN {cid} {r[:600]}", "real": r2[:800], "expected": want[:800]})
                return
            r3 = d.add(f"TYPED {r2}")
            if r3 != r:
                fails.append({"what": "encode-decode-encode differs from encode", "cls": cls.__name__,
                              "line": f"TYPED {r2[:600]}", "real": r3[:400], "expected": r[:400]})

    for cls in (classes or all_classes()):
        # none
        check(cls, gen_obj(cls, rng, "none", 0, pool, max_depth), "none")
        # each single attribute (exhaustive over all definitions)
        for i, _d in enumerate(cls.avp_def):
            check(cls, gen_obj(cls, rng, "single", 0, pool, max_depth, only=i), "single")
        for _ in range(n_random):
            check(cls, gen_obj(cls, rng, "random", 0, pool, max_depth), "random")
        check(cls, gen_obj(cls, rng, "all", 0, pool, 2), "all")
    for s in d.lines[len(d.lines) // 2: len(d.lines) // 2 + 3]:
        res.sample({"line": s[:300]})
    return d


def undefined_cases(res: Result, rng: random.Random, d: Diff, fails: list, n: int):
    """Commands without a typed implementation: attribute names, repeats as
    lists in wire order, grouped as nested objects (real vs model + name oracle)."""
    from realcodec import side, A
    pool = build_pool(d, rng, 50, 3, 10)
    # values that are "false" in Python (0, empty text / octets) and a second value of the same AVP
    falsy = [("299.0.64.00000000", "299.0.64.00000001"), ("258.0.64.00000000", "258.0.64.00000004"), ("25.0.64.", "25.0.64.6162"),
             ("18.0.0.", "18.0.0.6869"), ("266.0.64.00000000", "266.0.64.000028af")]
    # AVPs whose names do not start with a letter (3GPP-IMSI, 5QI, …) or contain other characters than letters, digits and
    # hyphens: the attribute name is the AVP name with hyphens replaced and in lower case, nothing else
    from realcodec import TY_TAG
    from codecdiff import entries as _entries
    PAY = {1: "00010a000001", 2: "3f800000", 3: "3ff0000000000000", 4: "", 5: "00000001", 6: "0000000000000001", 7: "61",
           8: "00000001", 9: "0000000000000001", 10: "61", 11: "e0000000", 0: "61"}
    odd = []
    for c_, v_, e_ in _entries():
        nm_ = e_.get("name", "")
        if nm_ and (not nm_[0].isalpha() or not nm_.replace("-", "").isalnum()):
            ty_ = TY_TAG.get(getattr(e_.get("type"), "__name__", ""), 0)
            odd.append(f"{c_}.{v_}.{0x80 if v_ else 0}.{PAY.get(ty_, '61')}")
    rng.shuffle(odd)
    for i in range(n):
        k = rng.choice([1, 2, 3, 5, 8])
        avps = [rng.choice(pool) for _ in range(k)]
        if odd and i % 3 == 1:
            avps += [odd[(i // 3 * 2) % len(odd)], odd[(i // 3 * 2 + 1) % len(odd)]]
            if rng.random() < 0.3:
                avps.append(avps[-1])
        if rng.random() < 0.6:
            avps += [rng.choice(avps) for _ in range(rng.randrange(1, 3))]
        if i % 4 == 0:
            a0, a1 = falsy[(i // 4) % len(falsy)]
            seq = [[a0, a1], [a0, a1, a0], [a1, a0], [a0, a0], [a0]][(i // 20) % 5]
            pos = rng.randrange(len(avps) + 1)
            avps = [a for a in avps if a.split(".")[:2] != a0.split(".")[:2]]
            avps[pos:pos] = seq
        body = b"".join(gen.avpobj_wire(a) for a in avps)
        code = rng.choice([999, 8388733, 8388620, 70001])
        hexs = (gen.rfc_header(1, 20 + len(body), 0x80, code, 0, 1, 2) + body).hex()
        r = d.add(f"MSGDEC {hexs} 0")
        if r.startswith("EXC"):
            continue
        t = r.split(" ")
        if t[8] != "UNDEF":
            continue
        # oracle on names/grouping: top-level attribute names in first-occurrence order
        names = []
        for a in avps:
            c, v = (int(x) for x in a.split(".")[:2])
            e = A.get_avp_dictionary_entry(c, v)
            nm = (e["name"] if e else "Unknown").replace("-", "_").lower()
            if nm not in names:
                names.append(nm)
        got = t[10]
        got_names = []
        depth = 0
        cur = ""
        for ch in got[2:-1]:
            if ch in "{[":
                depth += 1
            elif ch in "}]":
                depth -= 1
            if depth == 0 and ch == ";":
                got_names.append(cur.split("=", 1)[0])
                cur = ""
            else:
                cur += ch
        if cur:
            got_names.append(cur.split("=", 1)[0])
        if got_names != names:
            fails.append({"what": "untyped message does not expose every AVP under its normalised name in wire order",
                          "line": f"MSGDEC {hexs[:600]} 0", "real": str(got_names)[:300], "expected": str(names)[:300]})
            continue
        # repeated AVPs as lists (one element per occurrence), single ones bare, grouped AVPs as nested objects - at every level,
        # each level counting its own members only
        def nm_of(c, v):
            e = A.get_avp_dictionary_entry(c, v)
            return (e["name"] if e else "Unknown").replace("-", "_").lower(), e

        def expect(children):
            order, occ = [], {}
            for c, v, _f, data in children:
                nm, e = nm_of(c, v)
                ty = getattr((e or {}).get("type"), "__name__", "")
                if ty == "AvpGrouped":
                    try:
                        shape = ("G", expect(gen.rfc_parse_avps(data)))
                    except Exception:
                        shape = ("?",)
                else:
                    shape = ("V",)
                if nm not in occ:
                    order.append(nm)
                    occ[nm] = []
                occ[nm].append(shape)
            return [(nm, occ[nm][0] if len(occ[nm]) == 1 else ("N", occ[nm])) for nm in order]

        def split_top(sx, sep):
            parts, depth, cur = [], 0, ""
            for ch in sx:
                if ch in "{[":
                    depth += 1
                elif ch in "}]":
                    depth -= 1
                if depth == 0 and ch == sep:
                    parts.append(cur)
                    cur = ""
                else:
                    cur += ch
            if cur:
                parts.append(cur)
            return parts

        def parse(val):
            if val.startswith("G{"):
                return ("G", [(p.split("=", 1)[0], parse(p.split("=", 1)[1])) for p in split_top(val[2:-1], ";")])
            if val.startswith("N["):
                return ("N", [parse(x) for x in split_top(val[2:-1], ",")])
            return ("V",)

        def same(a, b):
            if "?" in (a[0], b[0]):
                return True
            if a[0] != b[0]:
                return False
            if a[0] == "G":
                return [n for n, _ in a[1]] == [n for n, _ in b[1]] and all(same(x, y) for (_, x), (_, y) in zip(a[1], b[1]))
            if a[0] == "N":
                return len(a[1]) == len(b[1]) and all(same(x, y) for x, y in zip(a[1], b[1]))
            return True

        def render(a):
            if a[0] == "G":
                return "{" + ";".join(f"{n}={render(x)}" for n, x in a[1]) + "}"
            if a[0] == "N":
                return "[" + ",".join(render(x) for x in a[1]) + "]"
            return a[0].lower()
        want_tree = ("G", expect(gen.rfc_parse_avps(body)))
        got_tree = parse(got)
        if not same(want_tree, got_tree):
            fails.append({"what": "untyped message: the attribute structure differs from the AVP tree (per level: a name occurring once is "
                                  "a bare value / nested object, a name occurring k > 1 times a list of k in wire order, counted among "
                                  "the members of that level only)", "line": f"MSGDEC {hexs[:800]} 0",
                          "real": render(got_tree)[:400], "expected": render(want_tree)[:400]})


def run(res: Result, tier: str, seed: int):
    rng = random.Random(seed * 1000003 + 3)
    res.rule = ("every class with avp_def (typed messages + grouped containers): no attribute, each single definition "
                "(exhaustive), random subsets, all; lists 0..3, nesting <= 4, undeclared extras; generate -> encode -> decode -> "
                "attributes -> re-encode, real vs model; oracle: AVP sequence per definition order with dictionary M flag, "
                "restored values, enc-dec-enc = enc; untyped commands: attribute names/lists/nesting; non-trivial = distinct "
                "lines not rejected")
    fails: list = []
    d = run_cases(res, rng, 2 if tier == "quick" else 25, 3 if tier == "quick" else 4, fails)
    undefined_cases(res, rng, d, fails, 120 if tier == "quick" else 3000)
    return fails, d.compare()


def signature(f: dict):
    return None


def search(res: Result, seed: int, broken) -> list:
    rng = random.Random(seed * 7919 + 37)
    fails: list = []
    r2 = Result(PROP, "thorough", seed)
    run_cases(r2, rng, 6, 4, fails)
    res.extra["search_cases"] = r2.cases
    return fails
