"""C16 — hop-by-hop, end-to-end and session ids are unique, also under concurrency."""
from __future__ import annotations

import random
import re

from common import Result, run_driver
import linesched
import realnode  # noqa: F401  (sys.path for the repo)

PROP = "C16"
MODULES = ["DV.Properties.C16", "DV.Properties.C16Tables"]

SEQ_MAX = 0xffffffff
SESS_MAX = 0xffffffffffffffff


def helpers():
    import diameter.node._helpers as h
    return h


class _Rand:
    def __init__(self, low=7, bits=5):
        self.low, self.bits = low, bits

    def randint(self, a, b):
        return self.low if b == 0x000fffff else max(a, min(b, self.low))

    def getrandbits(self, n):
        return self.bits


class _Time:
    def __init__(self, t):
        self.t = t

    def time(self):
        return float(self.t) + 0.25


def sess_value(sid: str) -> int:
    p = sid.split(";")
    return int(p[2] + p[3], 16)


# ------------------------------------------------------------ sequential part
def draws(call, n: int, conv, fails: list, what: str) -> list[int]:
    """n successive draws; a draw that raises is an oracle failure (recorded once) and shows as -1"""
    vals = []
    for i in range(n):
        try:
            vals.append(conv(call()))
        except Exception as e:  # noqa
            if not any(f.get("kind") == "draw-raised" and f.get("line") == what for f in fails):
                fails.append({"what": f"draw number {i + 1} raised {type(e).__name__}: {e} instead of returning an identifier",
                              "kind": "draw-raised", "line": what, "real": str(vals[-3:])})
            vals.append(-1)
    return vals


def sequential(res: Result, rng: random.Random, tier: str, fails: list, div: list):
    h = helpers()
    lines, reals, metas = [], [], []
    n = 12 if tier == "quick" else 300
    starts = [1, 2, 3, 1000, SEQ_MAX - 3, SEQ_MAX - 2, SEQ_MAX - 1, SEQ_MAX] + [rng.randrange(1, SEQ_MAX) for _ in range(20)]
    for s in starts:
        g = h.SequenceGenerator()
        g._sequence = s
        vals = draws(g.next_sequence, n, int, fails, f"GENSEQ seq {s} {n}")
        lines.append(f"GENSEQ seq {s} {n}")
        reals.append(" ".join(map(str, vals)))
        metas.append(("seq", s, vals, SEQ_MAX))
    sstarts = [1, 2, SESS_MAX - 2, SESS_MAX - 1, SESS_MAX, 0xffffffff, 0xfffffffe, 0x1_0000_0000] + \
              [rng.getrandbits(64) or 1 for _ in range(20)]
    for s in sstarts:
        g = h.SessionGenerator("node.x")
        g._sequence = s
        vals = draws(g.next_id, n, sess_value, fails, f"GENSEQ sess {s} {n}")
        lines.append(f"GENSEQ sess {s} {n}")
        reals.append(" ".join(map(str, vals)))
        metas.append(("sess", s, vals, SESS_MAX))
    if tier == "thorough":
        g = h.SequenceGenerator()
        g._sequence = SEQ_MAX - 50000
        vals = [g.next_sequence() for _ in range(100000)]
        lines.append(f"GENSEQ seq {SEQ_MAX - 50000} 100000")
        reals.append(" ".join(map(str, vals)))
        metas.append(("seq", SEQ_MAX - 50000, vals, SEQ_MAX))
    # start values: SequenceGenerator(include_now=t) and the node's end-to-end generator
    saved_r, saved_t = h.random, h.time
    try:
        ts = [0, 1, 4095, 4096, 4097, 1_700_000_000, 2**31 - 1, 2**31, 2**32 - 1, 2**32 + 5] + [rng.getrandbits(33) for _ in range(30)]
        for t in ts:
            for low in (1, 7, 0xfffff, rng.randrange(1, 0x100000)):
                h.random = _Rand(low)
                g = h.SequenceGenerator(include_now=t) if t else None
                if g is None:
                    continue
                v = g.sequence
                lines.append(f"GENINIT {t} {low}")
                reals.append(str(v))
                metas.append(("init", t, low, v))
                # … and the draws that follow from a generator started this way (the start may sit right below the wrap)
                vals = draws(g.next_sequence, 6, int, fails, f"GENSEQ seq {v} 6 (include_now={t}, low={low})")
                lines.append(f"GENSEQ seq {v} 6")
                reals.append(" ".join(map(str, vals)))
                metas.append(("seq", v, vals, SEQ_MAX))
        # session ids: format and fields
        alphabet = ["node.x", "a", "host.example.net", "Ünï.x", "x" * 40]
        for k in range(40 if tier == "quick" else 400):
            t = rng.choice([0, 1, 1_700_000_000, 2**32 - 1, rng.getrandbits(32)])
            start = rng.choice([rng.getrandbits(64), SESS_MAX, SESS_MAX - 1, 0, 0xffffffff])
            ident = rng.choice(alphabet)
            opts = [rng.choice(["user@host", "hello", "1", "opt-x"]) for _ in range(rng.randrange(0, 3))]
            h.random = _Rand(7, start)
            h.time = _Time(t)
            g = h.SessionGenerator(ident)
            try:
                sid = g.next_id(*opts)
            except Exception as e:  # noqa
                sid = f"EXC {type(e).__name__}"
                fails.append({"what": f"next_id raised {type(e).__name__}: {e} for counter value {start}", "kind": "draw-raised",
                              "line": f"GENSESS {ident} {t} start={start}"})
            after = 1 if start == SESS_MAX else start + 1
            lines.append("GENSESS " + " ".join([ident, str(t), str(after)] + opts))
            reals.append(sid)
            metas.append(("sessid", ident, t, after, opts, sid))
    finally:
        h.random, h.time = saved_r, saved_t
    outs = run_driver(lines)
    for line, r, m, meta in zip(lines, reals, outs, metas):
        res.cases += 1
        kind = meta[0]
        res.count(kind)
        if r != m:
            div.append({"line": line[:200], "real": r[:300], "model": m[:300]})
        # direct oracle on the real values
        if kind in ("seq", "sess"):
            _, s, vals, mx = meta
            if 0 in vals or any(v > mx for v in vals):
                fails.append({"what": "identifier zero or out of range", "line": line, "real": str(vals[:8])})
            if len(set(vals)) != len(vals):
                fails.append({"what": "successive identifiers repeat before the counter space wraps", "line": line,
                              "real": str(vals[:8]), "kind": "sequential-duplicate"})
            prev = s
            for v in vals:
                want = 1 if prev == mx else prev + 1
                if v != want:
                    fails.append({"what": f"draw after {prev} is {v}, expected {want}", "line": line, "kind": "sequential-step"})
                    break
                prev = v
            res.nontrivial.add(line)
        elif kind == "init":
            _, t, low, v = meta
            if (v >> 20) != (t & 0xfff) or not (1 <= v <= SEQ_MAX):
                fails.append({"what": "end-to-end start value does not carry the low 12 bits of the start time in its high 12 bits",
                              "line": line, "real": hex(v)})
            res.nontrivial.add(line)
        elif kind == "sessid":
            _, ident, t, after, opts, sid = meta
            want = ";".join([ident, "%08x" % (t & 0xffffffff), "%08x" % (after >> 32), "%08x" % (after & 0xffffffff)] + opts)
            if sid != want:
                fails.append({"what": "session id not of the form identity;start;high32;low32[;optional]", "line": line,
                              "real": sid, "want": want})
            res.nontrivial.add(line)
    res.traces_validated += len(lines)
    res.sample({"sequential": lines[3], "real": reals[3][:120]})


def node_start_value(res: Result, fails: list):
    """Node.__init__ seeds its end-to-end generator with the start time."""
    import vnode
    from diameter.node import Node
    base = (1_700_000_000 // 4096) * 4096
    for now, tick in [(t, None) for t in (1_700_000_000, 1_700_000_000 + 4095, 2**31 + 17, base, base + 4096, base - 1, base + 1,
                                           4096 * 400000, 2**31, 2**32 - 4096)] + \
                     [(t, k) for t in (base + 4094, base + 4095, base - 1, 1_700_000_000) for k in range(2, 9)]:
        # (tick = k: the clock moves on to the next second at its k-th reading during construction; the start time of the node
        # is the one it reports as Origin-State-Id)
        env = vnode.Env()
        env.now = now
        if tick is not None:
            env.tick_at_read = tick
        env.install()
        import diameter.node._helpers as helpers_mod

        class _R:
            def randint(self, a, b):
                return 7 if b == 0x000fffff else 0x9abcdef1     # a fully random seed would show in the high bits

            def getrandbits(self, k):
                return 5
        helpers_mod.random = _R()
        try:
            n = Node("node.local", "realm.local", ip_addresses=["10.0.0.1"], tcp_port=3868)
            v = n.end_to_end_seq.sequence
            started = n.state_id
        finally:
            env.uninstall()
        res.cases += 1
        if (v >> 20) != (started & 0xfff) or started not in (now, now + 1) or (tick is None and started != now):
            fails.append({"what": "Node's end-to-end generator is not seeded with the low 12 bits of the start time",
                          "real": f"now={now} clock ticks at reading {tick} start time (Origin-State-Id)={started} generator start={hex(v)}"})


def node_handed_out(res: Result, fails: list):
    """The identifiers a *node* hands out: the hop-by-hop ids of everything it sends on one connection (CER/DWR/DPR and
    application requests) are pairwise distinct and non-zero, the end-to-end ids of all its requests likewise -- with the
    connection's counter started close to the node's end-to-end counter (a window of offsets), so that a request numbered
    from the wrong counter meets one numbered from the right one."""
    import nodecheck
    import nodegen
    from nodecheck import kv
    e0 = 268435463            # start of the end-to-end counter in the virtual environment
    cfg = ("NODE host=node.local;realm=realm.local;idle=3;dwa=30;cer=30;cea=30;peer:peer1.x,realm.local,0,0,30,1,0,-,-,-,-;"
           "peer:peer2.x,realm.local,1,0,30,1,0,-,-,-,-;app:4,1,0,b,0,0+1,-")
    h = [5000]

    def n():
        h[0] += 1
        return h[0]
    for off in range(-6, 7):
        rq = "req 0 " + nodegen.ccr(0, 0, "node.local") + " 1"
        lines = [
            # an accepted connection: watchdogs, application requests, then the DPR of a graceful stop
            cfg + " | start fail | acc | rx 1 " + nodegen.cer("peer1.x", "4", n(), n()) + f" | sethbh 1 {e0 + off} | adv 4 | rx 1 " +
            nodegen.dwa(n(), n()) + f" | {rq} | adv 4 | rx 1 " + nodegen.dwa(n(), n()) + f" | {rq} | stop 0 1",
            # a dialled one: CER, watchdog, request, DPR
            cfg + f" | start ok | sethbh 0 {e0 + off} | rx 0 " + nodegen.cea(2001, "peer2.x", n(), n()) + " | adv 4 | rx 0 " +
            nodegen.dwa(n(), n(), "peer2.x") + f" | {rq} | stop 0 1",
        ]
        for line in lines:
            res.cases += 1
            res.count("node-handed-out")
            obs = nodecheck.run_real(line)
            if obs and obs[0].startswith("HARNESS-"):
                fails.append({"what": "scenario could not be driven: " + obs[0], "line": line[:400]})
                continue
            per_conn, e2es = {}, []
            for l in obs:
                if l.startswith("OUT ") and " R=1 " in l:
                    d = kv(l)
                    per_conn.setdefault(l.split(" ")[1], []).append((int(d["hbh"]), d["cmd"]))
                    e2es.append((int(d["e2e"]), d["cmd"]))
            for c, ids in per_conn.items():
                vals = [v for v, _ in ids]
                if 0 in vals or len(set(vals)) != len(vals):
                    fails.append({"what": "hop-by-hop identifiers of the requests a node sent on one connection are not pairwise "
                                          "distinct and non-zero", "line": line[:900], "real": f"{c}: {ids}", "kind": "node"})
            vals = [v for v, _ in e2es]
            if 0 in vals or len(set(vals)) != len(vals):
                fails.append({"what": "end-to-end identifiers of the requests a node sent are not pairwise distinct and non-zero",
                              "line": line[:900], "real": str(e2es), "kind": "node"})


# ------------------------------------------------------------- schedules part
def make_threads(which: str, start: int, nthr: int, k: int, steppers):
    h = helpers()
    if which == "seq":
        g = h.SequenceGenerator()
        g._sequence = start
        call = lambda: steppers["seq"](g)          # noqa: E731
    else:
        g = h.SessionGenerator("n.x")
        g._sequence = start
        call = lambda: steppers["sess"](g)         # noqa: E731
    return g, [linesched.Thread([call for _ in range(k)]) for _ in range(nthr)]


def outputs(which, threads):
    conv = (lambda x: x) if which == "seq" else sess_value
    return [[(f"raised {type(x).__name__}" if isinstance(x, Exception) else conv(x)) for x in t.results] for t in threads]


def check_outputs(which, outs, mx):
    flat = [v for o in outs for v in o]
    if any(isinstance(v, str) for v in flat):
        return "a draw raised instead of returning an identifier: " + next(v for v in flat if isinstance(v, str))
    if 0 in flat or any(v > mx for v in flat):
        return "an identifier handed out to a caller is zero or out of range"
    if len(set(flat)) != len(flat):
        return "two callers received the same identifier"
    return None


def schedules(res: Result, rng: random.Random, tier: str, fails: list, div: list, budget=None):
    h = helpers()
    steppers = {"seq": linesched.stepper(h.SequenceGenerator.next_sequence, inline_calls=True),
                "sess": linesched.stepper(h.SessionGenerator.next_id, inline_calls=True)}
    configs = [(2, 1, 3), (2, 2, 3), (3, 1, 3)] if tier == "quick" else [(2, 1, 3), (2, 2, 3), (2, 3, 3), (3, 1, 3), (3, 2, 3), (3, 3, 2)]
    lines, reals = [], []
    total_runs = 0
    for which, mx in (("seq", SEQ_MAX), ("sess", SESS_MAX)):
        for (nthr, k, bound) in configs:
            for start in (5, mx - 1, mx):
                cap = budget or (4000 if tier == "quick" else 60000)

                def on_run(threads, trace, which=which, start=start, nthr=nthr, mx=mx):
                    outs = outputs(which, threads)
                    sched = [c for c, _, _ in trace]
                    lines.append(f"GENSCHED {which} {start} {nthr} " + ",".join(map(str, sched)))
                    reals.append("|".join(",".join(map(str, o)) for o in outs))
                    bad = check_outputs(which, outs, mx)
                    if bad:
                        fails.append({"what": bad, "kind": "schedule", "generator": which, "start": start, "threads": nthr,
                                      "schedule": sched, "real": str(outs)})
                        return True
                    return False
                runs, _ = linesched.explore(lambda: make_threads(which, start, nthr, k, steppers)[1], bound, on_run, max_runs=cap)
                total_runs += runs
                res.count(f"schedules {which} {nthr}x{k} b{bound}", runs)
    # random schedules with unbounded preemptions
    for _ in range(200 if tier == "quick" else 5000):
        which, mx = rng.choice([("seq", SEQ_MAX), ("sess", SESS_MAX)])
        nthr, k = rng.randrange(2, 4), rng.randrange(1, 4)
        start = rng.choice([5, mx - 2, mx - 1, mx, rng.randrange(1, mx)])
        prefix = [rng.randrange(nthr) for _ in range(60)]
        g, threads = make_threads(which, start, nthr, k, steppers)
        ths, trace = linesched.execute(lambda: threads, prefix)
        outs = outputs(which, ths)
        sched = [c for c, _, _ in trace]
        lines.append(f"GENSCHED {which} {start} {nthr} " + ",".join(map(str, sched)))
        reals.append("|".join(",".join(map(str, o)) for o in outs))
        bad = check_outputs(which, outs, mx)
        if bad:
            fails.append({"what": bad, "kind": "schedule", "generator": which, "start": start, "threads": nthr,
                          "schedule": sched, "real": str(outs)})
        total_runs += 1
    res.count("random schedules", 200 if tier == "quick" else 5000)
    fresh_generator_threads(res, fails)
    outs = run_driver(lines)
    for line, r, m in zip(lines, reals, outs):
        res.cases += 1
        mm = m.split(" seq=")[0]
        if r != mm:
            div.append({"line": line[:300], "real": r, "model": mm})
        else:
            res.nontrivial.add(line)
    res.traces_validated += len(lines)
    if lines:
        res.sample({"schedule": lines[len(lines) // 2], "real": reals[len(lines) // 2]})
    res.extra["schedules_executed"] = total_runs


def fresh_generator_threads(res: Result, fails: list):
    """The very first draws on a generator nobody has used yet (a new connection's hop-by-hop generator, a new node's
    end-to-end generator), by two real threads on the unmodified classes: every line of every function of `_helpers.py`
    is a scheduling point (sys.settrace), schedules "thread 0 runs k lines, thread 1 runs m lines, thread 0 finishes,
    thread 1 finishes" for all k, m.  (A thread blocked on the generator's lock simply does not advance.)"""
    import sys as _sys
    from valrace import code_objects
    h = helpers()
    codes = code_objects(h)
    cs = set(codes)
    runs = 0
    for which in ("seq", "sess"):
        def fresh():
            g = h.SequenceGenerator() if which == "seq" else h.SessionGenerator("n.x")
            g._sequence = 5
            return g
        draw = (lambda g: g.next_sequence) if which == "seq" else (lambda g: g.next_id)
        count = [0]

        def tracer(frame, event, arg):
            if event == "call" and frame.f_code in cs:
                def local(fr, ev, ar):
                    if ev == "line":
                        count[0] += 1
                    return local
                return local
            return None
        g = fresh()
        _sys.settrace(tracer)
        try:
            draw(g)()
        finally:
            _sys.settrace(None)
        n = count[0]
        for k in range(0, n + 1):
            for m in range(0, n + 1):
                g = fresh()
                got = linesched.run_threads([[draw(g)], [draw(g)]], [0] * k + [1] * m + [0] * (n + 2), codes, timeout=0.05)
                runs += 1
                vals = [x for r in got for x in r]
                conv = (lambda x: x) if which == "seq" else sess_value
                try:
                    ids = [conv(v) for v in vals]
                except Exception:  # noqa
                    ids = vals
                if len(vals) != 2 or len(set(ids)) != 2 or sorted(ids) != [6, 7]:
                    fails.append({"what": "the first two draws on a fresh generator, made by two threads at the same time, are not "
                                          "two distinct consecutive identifiers", "kind": "schedule", "generator": which, "start": 5,
                                  "threads": 2, "schedule": f"thread 0: {k} lines, thread 1: {m} lines, thread 0 to the end, thread 1 to the end "
                                                            f"(every line of _helpers.py a scheduling point)", "real": str(ids)})
                    break
            else:
                continue
            break
    res.count("fresh generator, two real threads, (k, m) line grid", runs)
    res.cases += runs


def confirm_on_threads(f: dict):
    """Replays a failing schedule on the unmodified method in real threads (only
    possible when the method takes no lock: a blocked thread cannot be stepped)."""
    h = helpers()
    if f.get("generator") != "seq":
        return None
    import inspect
    if "with " in inspect.getsource(h.SequenceGenerator.next_sequence):
        return None
    g = h.SequenceGenerator()
    g._sequence = f["start"]
    per = [len(x) for x in eval(f["real"])]
    funcs = [[g.next_sequence] * n for n in per]
    got = linesched.run_threads(funcs, f["schedule"], [h.SequenceGenerator.next_sequence.__code__])
    return str(got)


def run(res: Result, tier: str, seed: int):
    rng = random.Random(seed * 1000003 + 16)
    res.rule = ("successive draws from start values incl. MAX-3..MAX (32- and 64-bit), 10^5 draws across the wrap (thorough); start "
                "values for all start-time classes x low parts; session ids for identities/options/start times; 2..3 threads x 1..3 "
                "draws from one generator under every interleaving at source-line granularity with up to 3 preemptions (stepping "
                "the current source of next_sequence/next_id line by line), plus random schedules; oracle on the values returned "
                "by the real code; real vs the Lean interpreter of the extracted line skeleton under the same schedule")
    fails, div = [], []
    sequential(res, rng, tier, fails, div)
    node_start_value(res, fails)
    node_handed_out(res, fails)
    try:
        # (a draw that never returns -- code outside the stepped lines waiting for a lock that a paused caller holds -- must
        # end the exploration, not the check)
        with linesched.deadline(900 if tier == "quick" else 5400):
            schedules(res, rng, tier, fails, div)
    except linesched.StepHang as e:
        fails.append({"what": "a caller drawing an identifier never returns under some schedule (the exploration made no "
                              f"progress: {e})", "kind": "hang"})
    for f in fails:
        if f.get("kind") == "schedule" and "threads_replay" not in f:
            try:
                f["threads_replay"] = confirm_on_threads(f)
            except Exception as e:  # noqa
                f["threads_replay"] = f"replay failed: {e}"
    return fails[:20], div[:20]


def signature(f: dict):
    return None


def search(res: Result, seed: int, broken) -> list:
    rng = random.Random(seed * 7919 + 71)
    r2 = Result(PROP, "thorough", seed)
    fails, div = [], []
    sequential(r2, rng, "thorough", fails, div)
    if not fails:
        schedules(r2, rng, "thorough", fails, div, budget=20000)
    for f in fails:
        if f.get("kind") == "schedule":
            try:
                f["threads_replay"] = confirm_on_threads(f)
            except Exception as e:  # noqa
                f["threads_replay"] = f"replay failed: {e}"
    return fails[:3]
