"""C05 — stream framing: chunking-invariant, ordered, exactly-once, always progresses."""
from __future__ import annotations

import random

from common import Result, run_driver
import gen

PROP = "C05"
MODULES = ["DV.Properties.C05", "DV.Properties.ConfigTie"]


def good_messages(rng: random.Random) -> list[bytes]:
    """Well-formed messages, 20 B .. 8 KiB, base-protocol and application commands."""
    out = []

    def msg(code, flags, avps, app=0):
        body = b"".join(avps)
        return gen.rfc_header(1, 20 + len(body), flags, code, app, rng.getrandbits(32) or 1, rng.getrandbits(32) or 1) + body
    oh = gen.rfc_wire(264, 0, 0x40, b"peer.example.net")
    orr = gen.rfc_wire(296, 0, 0x40, b"example.net")
    out.append(msg(280, 0x80, [oh, orr]))                                   # DWR
    out.append(msg(280, 0x00, [gen.rfc_wire(268, 0, 0x40, (2001).to_bytes(4, "big")), oh, orr]))
    out.append(msg(257, 0x80, [oh, orr, gen.rfc_wire(257, 0, 0x40, b"\x00\x01\x0a\x00\x00\x01"),
                               gen.rfc_wire(266, 0, 0x40, (0).to_bytes(4, "big")),
                               gen.rfc_wire(269, 0, 0x00, b"prod")]))
    out.append(msg(257, 0x00, [gen.rfc_wire(268, 0, 0x40, (2001).to_bytes(4, "big")), oh, orr,          # CEA
                               gen.rfc_wire(257, 0, 0x40, b"\x00\x01\x0a\x00\x00\x01"),
                               gen.rfc_wire(266, 0, 0x40, (0).to_bytes(4, "big")), gen.rfc_wire(269, 0, 0x00, b"prod")]))
    out.append(msg(282, 0x80, [oh, orr, gen.rfc_wire(273, 0, 0x40, (0).to_bytes(4, "big"))]))
    out.append(msg(272, 0xc0, [gen.rfc_wire(263, 0, 0x40, b"s;1;2"), oh, orr,
                               gen.rfc_wire(283, 0, 0x40, b"example.net"),
                               gen.rfc_wire(258, 0, 0x40, (4).to_bytes(4, "big")),
                               gen.rfc_wire(461, 0, 0x40, b"ctx@3gpp.org"),
                               gen.rfc_wire(416, 0, 0x40, (1).to_bytes(4, "big")),
                               gen.rfc_wire(415, 0, 0x40, (0).to_bytes(4, "big"))], app=4))
    # a watchdog request carrying an AVP its command does not define: a Grouped one whose payload is not an AVP list (the
    # message is delivered all the same -- nobody reads that value)
    out.append(msg(280, 0x80, [oh, orr, gen.rfc_wire(456, 0, 0x00, b"\x01\x02\x03")]))
    # every legal flag combination occurs: a retransmitted request (T), an error answer (E), a proxiable answer
    out.append(msg(272, 0xd0, [gen.rfc_wire(263, 0, 0x40, b"s;1;3"), oh, orr, gen.rfc_wire(283, 0, 0x40, b"example.net"),
                               gen.rfc_wire(258, 0, 0x40, (4).to_bytes(4, "big")), gen.rfc_wire(461, 0, 0x40, b"ctx@3gpp.org"),
                               gen.rfc_wire(416, 0, 0x40, (1).to_bytes(4, "big")), gen.rfc_wire(415, 0, 0x40, (0).to_bytes(4, "big"))],
                   app=4))
    out.append(msg(280, 0x90, [oh, orr]))
    out.append(msg(272, 0x60, [gen.rfc_wire(263, 0, 0x40, b"s;1;4"), gen.rfc_wire(268, 0, 0x40, (3002).to_bytes(4, "big")), oh, orr], app=4))
    # AVPs of a vendor nobody knows; typed Grouped AVPs holding members their definition does not name (a non-empty
    # Failed-AVP in an error answer, an extra member in Vendor-Specific-Application-Id of a CER)
    out.append(msg(280, 0x80, [oh, orr, gen.rfc_wire(4242, 55555, 0xC0, b"\x00\x00\x00\x07")]))
    out.append(msg(280, 0x20, [gen.rfc_wire(268, 0, 0x40, (5005).to_bytes(4, "big")), oh, orr,
                               gen.rfc_wire(279, 0, 0x40, gen.rfc_wire(263, 0, 0x40, b"s;9") + gen.rfc_wire(4242, 55555, 0x80, b"x"))]))
    out.append(msg(257, 0x80, [oh, orr, gen.rfc_wire(257, 0, 0x40, b"\x00\x01\x0a\x00\x00\x01"),
                               gen.rfc_wire(266, 0, 0x40, (0).to_bytes(4, "big")), gen.rfc_wire(269, 0, 0x00, b"prod"),
                               gen.rfc_wire(260, 0, 0x40, gen.rfc_wire(266, 0, 0x40, (10415).to_bytes(4, "big")) +
                                            gen.rfc_wire(258, 0, 0x40, (4).to_bytes(4, "big")) + gen.rfc_wire(1, 0, 0x40, b"extra"))]))
    out.append(msg(999, 0x80, []))                                          # bare 20-byte header
    out.append(msg(8388620, 0x80, [gen.rfc_wire(263, 0, 0x40, b"x" * 100)], app=16777217))
    out.append(msg(271, 0x80, [gen.rfc_wire(263, 0, 0x40, b"acct;1"), oh, orr,
                               gen.rfc_wire(25, 0, 0x40, gen.rand_bytes(rng, 8000))], app=3))  # ~8 KiB
    return out


def undecodable(rng: random.Random) -> bytes:
    """Correct framing, body that does not decode: an AVP overrunning the frame, or AVPs of intact structure one of
    whose values cannot be read (junk inside a Grouped AVP, a 3-octet Unsigned32, invalid UTF-8)."""
    kind = rng.choice(["overrun", "overrun", "grouped-junk", "short-u32", "bad-utf8"])
    oh = gen.rfc_wire(264, 0, 0x40, b"peer.example.net")
    orr = gen.rfc_wire(296, 0, 0x40, b"example.net")
    code = rng.choice([257, 272, 999])
    if kind == "overrun":
        body = b"\x00\x00\x01\x08\x40\x00\x00\x40" + gen.rand_bytes(rng, rng.choice([0, 4, 12]))
    elif kind == "grouped-junk":
        code = 257
        body = oh + orr + gen.rfc_wire(260, 0, 0x40, b"\x01\x02\x03\x04\x05")
    elif kind == "short-u32":
        code = 999          # (a command without a typed class reads every value while building its attributes)
        body = oh + orr + gen.rfc_wire(278, 0, 0x40, b"\x00\x01\x02")
    else:
        code = 999
        body = gen.rfc_wire(263, 0, 0x40, b"\xff\xfe\xfd") + oh + orr
    return gen.rfc_header(1, 20 + len(body), 0x80, code, 0, rng.getrandbits(32), rng.getrandbits(32)) + body


def corrupt_length(rng: random.Random, m: bytes, kind: str) -> bytes:
    b = bytearray(m)
    real = len(m)
    v = {"zero": 0, "tiny": rng.randrange(1, 20), "shorter": max(20, real - 4 * rng.randrange(1, 3)) if real > 24 else 8,
         "longer": real + 4 * rng.randrange(1, 4), "huge": 2**24 - 1}[kind]
    b[1:4] = v.to_bytes(3, "big")
    return bytes(b)


def cuts_to_chunks(stream: bytes, cuts: list[int]) -> list[bytes]:
    pts = [0] + sorted(set(c for c in cuts if 0 < c < len(stream))) + [len(stream)]
    return [stream[a:b] for a, b in zip(pts, pts[1:]) if b > a]


def parse_out(r: str):
    # D[...] closed=x spin=y resid=n
    d, rest = r.split("] ", 1)
    dl = d[2:].split(",") if len(d) > 2 else []
    kv = dict(x.split("=") for x in rest.split(" "))
    return dl, int(kv["closed"]), int(kv["spin"]), int(kv["resid"]), kv.get("died", "")


class _Enough(Exception):
    pass


def run_cases(res: Result, rng: random.Random, tier: str, fails: list):
    try:
        return _run_cases(res, rng, tier, fails)
    except _Enough as e:
        return e.args[0]


def _run_cases(res: Result, rng: random.Random, tier: str, fails: list):
    from realnode import frame_real
    goods = good_messages(rng)
    small = [m for m in goods if len(m) <= 120]
    lines, reals = [], []
    seen = set()

    def case(frames: list[tuple[str, bytes]], chunks: list[bytes], label: str, model: bool = True):
        line = "FRAME " + " ".join(c.hex() for c in chunks)
        if line in seen:
            return
        if res.extra.get("search") and len(fails) >= 3:
            raise _Enough((lines, reals))          # a search stops at the first few failing inputs
        if sum(1 for f in fails if f.get("what", "").startswith("reader spins")) >= 3:
            raise _Enough((lines, reals))          # every further spinning case would cost its full time budget
        seen.add(line)
        r = frame_real(chunks)
        if model:
            lines.append(line)
            reals.append(r)
        res.cases += 1
        res.count("kind:" + label)
        if any(f[5:8] == b"\x00\x01\x01" for _, f in frames):
            # capabilities-exchange messages in the stream of an established connection: delivery is the same whether the
            # connection was accepted or dialled
            r2 = frame_real(chunks, sender=True)
            if r2 != r:
                fails.append({"what": "delivered messages of an established connection depend on whether it was accepted or dialled "
                                      "(the same stream, the same reads)", "line": line[:1200], "real": f"accepted: {r} / dialled: {r2}",
                              "label": label})
                return
        dl, closed, spin, resid, died = parse_out(r)
        stream = b"".join(c for c in chunks)
        if died:
            fails.append({"what": f"the reader thread was ended by an exception ({died}) leaving work_read_queue: nothing behind "
                                  "that point is ever delivered and the connection is not closed", "line": line[:1200], "real": r,
                          "label": label})
            return
        if spin:
            fails.append({"what": "reader spins without consuming input", "line": line[:1200], "real": r, "label": label})
            return
        kinds = {k for k, _ in frames}
        # final state: closed, empty, or waiting for a header / the rest of a frame
        if not closed and resid:
            tail = stream[len(stream) - resid:]
            if resid >= 20 and int.from_bytes(tail[1:4], "big") <= resid:
                fails.append({"what": "reader stopped with a complete frame still buffered (silent stall)",
                              "line": line[:1200], "real": r, "label": label})
        if kinds <= {"good", "bad", "odd"}:
            want = []
            odd_ids = set()
            for k, f in frames:
                h = gen.rfc_parse_header(f)
                if k == "good":
                    want.append(f"{h[3]}:{h[5]}:{h[6]}:{h[1]}")
                elif k == "odd":
                    # framing intact, body questionable (an AVP whose own length field is 0..7, nesting a thousand levels
                    # deep): delivered or skipped -- but the frames around it are delivered, and the reader neither spins nor dies
                    odd_ids.add(f"{h[3]}:{h[5]}:{h[6]}:{h[1]}")
            dl = [x for x in dl if x not in odd_ids]
            if dl != want or closed:
                fails.append({"what": "delivered messages differ from the well-formed frames of the stream (each once, in order, "
                                      "independent of the read boundaries; undecodable frames skipped)",
                              "line": line[:1200], "real": r, "expected": "D[" + ",".join(want) + "] closed=0",
                              "label": label, "cuts": [len(c) for c in chunks]})
            else:
                res.nontrivial.add(hash(line))
        else:
            # a frame with a corrupt length field somewhere: whatever happens from there on, every well-formed frame in
            # front of it is delivered (once, in order), however the stream is cut
            want = []
            for k, f in frames:
                if k == "good":
                    h = gen.rfc_parse_header(f)
                    want.append(f"{h[3]}:{h[5]}:{h[6]}:{h[1]}")
                elif k != "bad":
                    break
            if dl[:len(want)] != want:
                fails.append({"what": "well-formed frames in front of a frame with a corrupt length field were not all delivered "
                                      "(each once, in order)", "line": line[:1200], "real": r,
                              "expected": "D[" + ",".join(want) + ",…]", "label": label, "cuts": [len(c) for c in chunks]})

    def all_cut_sets(n: int, k: int):
        if k == 1:
            return [[i] for i in range(1, n)]
        return [[i, j] for i in range(1, n) for j in range(i + 1, n)]

    # 1. streams of good frames: every 1-cut (and 2-cuts for short streams)
    for nmsg in (1, 2, 3):
        for _ in range(3 if tier == "quick" else 12):
            fr = [("good", rng.choice(small)) for _ in range(nmsg)]
            stream = b"".join(f for _, f in fr)
            case(fr, [stream], "good-whole")
            for c in all_cut_sets(len(stream), 1):
                case(fr, cuts_to_chunks(stream, c), "good-1cut")
            if len(stream) <= (70 if tier == "quick" else 130):
                for c in all_cut_sets(len(stream), 2):
                    case(fr, cuts_to_chunks(stream, c), "good-2cut")
            case(fr, [bytes([x]) for x in stream], "good-bytewise")
    # long streams: random k-cuts, byte-at-a-time
    for _ in range(6 if tier == "quick" else 60):
        fr = [("good", rng.choice(goods)) for _ in range(rng.randrange(1, 7))]
        stream = b"".join(f for _, f in fr)
        for _k in range(4):
            cuts = [rng.randrange(1, len(stream)) for _ in range(rng.randrange(1, 12))]
            case(fr, cuts_to_chunks(stream, cuts), "good-kcut")
        # reads of at most 2048 bytes, as the node does
        case(fr, [stream[i:i + 2048] for i in range(0, len(stream), 2048)], "good-2048")
    # 2. undecodable frame at every position, all 1-cuts
    for _ in range(4 if tier == "quick" else 25):
        n = rng.randrange(1, 4)
        fr = [("good", rng.choice(small)) for _ in range(n)]
        fr.insert(rng.randrange(0, n + 1), ("bad", undecodable(rng)))
        stream = b"".join(f for _, f in fr)
        case(fr, [stream], "bad-whole")
        for c in all_cut_sets(len(stream), 1):
            case(fr, cuts_to_chunks(stream, c), "bad-1cut")
        if tier != "quick" and len(stream) <= 110:
            for c in all_cut_sets(len(stream), 2):
                case(fr, cuts_to_chunks(stream, c), "bad-2cut")
    # 2b. a large frame (undecodable or good) split over several reads, the last of which ends at the frame
    #     boundary or just behind it, followed by small frames: cuts = (inside the large frame, boundary + d)
    tiny = [m for m in small if len(m) <= 64] or small
    for big_kind in ("bad", "good"):
        for _ in range(2 if tier == "quick" else 10):
            if big_kind == "bad":
                body = b"\x00\x00\x01\x08\x40\x00\x01\x00" + gen.rand_bytes(rng, rng.choice([120, 200, 260]))
                big = gen.rfc_header(1, 20 + len(body), 0x80, 272, 4, rng.getrandbits(32) or 1, rng.getrandbits(32) or 1) + body
            else:
                big = max(goods, key=len) if rng.random() < 0.3 else gen.rfc_header(1, 20 + 208, 0x80, 999, 0, 7, 8) + \
                    gen.rfc_wire(25, 0, 0x40, gen.rand_bytes(rng, 200))
            pre = [("good", rng.choice(tiny))] if rng.random() < 0.5 else []
            post = [("good", rng.choice(tiny)) for _ in range(rng.randrange(1, 4))]
            fr = pre + [(big_kind, big)] + post
            stream = b"".join(f for _, f in fr)
            start = sum(len(f) for _, f in pre)
            end = start + len(big)
            step = 9 if tier == "quick" else 3
            for inside in range(start + 1, end, step):
                for d in (0, 1, 10, 19, 20, 21):
                    if end + d < len(stream):
                        case(fr, cuts_to_chunks(stream, [inside, end + d]), "big-" + big_kind)
                        case(fr, cuts_to_chunks(stream, [inside, end + d] + [end + d + x for x in (5, 25)]), "big-" + big_kind)
    # 2c. intact framing, an AVP inside whose own length field says 0..7 (less than an AVP header), at the front, in the
    #     middle, at the end of the body; a V-flagged AVP of length 8 (no room for its vendor id)
    oh = gen.rfc_wire(264, 0, 0x40, b"peer.example.net")
    orr = gen.rfc_wire(296, 0, 0x40, b"example.net")
    odd_bodies = []
    for ln in (0, 1, 4, 7):
        stub = (263).to_bytes(4, "big") + bytes([0x40]) + ln.to_bytes(3, "big")
        odd_bodies += [stub + oh + orr, oh + stub + orr, oh + orr + stub]
    odd_bodies.append(oh + (263).to_bytes(4, "big") + bytes([0xc0]) + (8).to_bytes(3, "big") + orr)
    for i, body in enumerate(odd_bodies):
        if tier == "quick" and i % 3 != rng.randrange(3) and i != len(odd_bodies) - 1 and i > 2:
            continue
        for code in (999, 272):
            odd = gen.rfc_header(1, 20 + len(body), 0x80, code, 4, 9100 + i, 9200 + i) + body
            fr = [("good", rng.choice(tiny)), ("odd", odd), ("good", rng.choice(tiny))]
            stream = b"".join(f for _, f in fr)
            case(fr, [stream], "odd-avp-length")
            case(fr, cuts_to_chunks(stream, [len(fr[0][1]) + 30]), "odd-avp-length")
            case(fr, [bytes([x]) for x in stream], "odd-avp-length")
    # 2d. Grouped AVPs nested a thousand levels deep in a command without typed implementation (an ~8 KiB frame the decoder
    #     walks recursively): whatever the decoder makes of it, the frames around it are delivered (real code only)
    for depth in (990, 1015):
        inner = b""
        for _ in range(depth):
            inner = gen.rfc_wire(260, 0, 0x40, inner)
        deep = gen.rfc_header(1, 20 + len(inner), 0x80, 999, 0, 9301, 9302) + inner
        fr = [("good", rng.choice(tiny)), ("odd", deep), ("good", rng.choice(tiny)), ("good", rng.choice(tiny))]
        stream = b"".join(f for _, f in fr)
        case(fr, [stream], "odd-deep", model=False)
        case(fr, [stream[i:i + 2048] for i in range(0, len(stream), 2048)], "odd-deep", model=False)
    # 3. corrupted header length at every position
    for kind in ("zero", "tiny", "shorter", "longer", "huge"):
        for _ in range(3 if tier == "quick" else 20):
            n = rng.randrange(1, 4)
            fr = [("good", rng.choice(small)) for _ in range(n)]
            pos = rng.randrange(0, n + 1)
            fr.insert(pos, ("corrupt", corrupt_length(rng, rng.choice(small), kind)))
            stream = b"".join(f for _, f in fr)
            case(fr, [stream], "corrupt-" + kind)
            step = 1 if tier != "quick" else 3
            for c in all_cut_sets(len(stream), 1)[::step]:
                case(fr, cuts_to_chunks(stream, c), "corrupt-" + kind)
    # 4. random bytes
    for _ in range(40 if tier == "quick" else 600):
        stream = gen.rand_bytes(rng, rng.randrange(1, 90))
        cuts = [rng.randrange(1, max(2, len(stream))) for _ in range(rng.randrange(0, 3))]
        case([("corrupt", stream)], cuts_to_chunks(stream, cuts), "random")
    res.samples = [{"line": l[:160], "real": r} for l, r in list(zip(lines, reals))[::max(1, len(lines) // 5)]][:6]
    return lines, reals


def run(res: Result, tier: str, seed: int):
    rng = random.Random(seed * 1000003 + 5)
    res.rule = ("real PeerConnection.work_read_queue run synchronously (traced line budget = livelock detector) vs model on streams of "
                "1..6 messages: every 1-cut, every 2-cut of short streams, random k-cuts, byte-at-a-time, 2048-byte reads; "
                "undecodable frames and 5 corrupt-length classes at every position; random bytes; oracle: delivered = good frames "
                "for every cut, never spins, never stalls with a complete frame buffered; non-trivial = distinct cases delivering "
                "exactly the expected frames")
    fails: list = []
    lines, reals = run_cases(res, rng, tier, fails)
    model = run_driver(lines)
    res.traces_validated += len(lines)
    div = [{"line": l[:1500], "real": r, "model": m} for l, r, m in zip(lines, reals, model) if r != m]
    return fails, div


def signature(f: dict):
    return None


def search(res: Result, seed: int, broken) -> list:
    rng = random.Random(seed * 7919 + 41)
    fails: list = []
    r2 = Result(PROP, "thorough", seed)
    r2.extra["search"] = True
    run_cases(r2, rng, "thorough", fails)
    res.extra["search_cases"] = r2.cases
    return fails
