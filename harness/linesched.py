"""Source-line-granularity scheduler for methods of the real package.

`stepper(func)` re-compiles the *current source* of a function/method into a
generator that yields before every statement (and, instead of blocking in a
`with <lock>:`, yields ('blocked', lock) until the lock is free).  A set of such
generators sharing an object is then run under every schedule with a bounded
number of preemptions (stateless depth-first search, re-executing from the
start), or under one given schedule (replay).

`run_threads(...)` replays a schedule on the unmodified function objects in real
threads, gated line by line through sys.settrace (used to confirm a failing
schedule on code without locks).
"""
from __future__ import annotations

import ast
import inspect
import sys
import textwrap
import threading


class StepHang(Exception):
    """a step did not return: unstepped code blocks on a lock held by a paused virtual thread"""


class deadline:
    """`with deadline(s):` raises StepHang in the main thread after s seconds (SIGALRM)."""

    def __init__(self, seconds: int):
        self.seconds = seconds

    def __enter__(self):
        import signal

        def onalarm(signum, frame):
            raise StepHang(f"no progress for {self.seconds} s")
        self.old = signal.signal(signal.SIGALRM, onalarm)
        signal.alarm(self.seconds)
        return self

    def __exit__(self, *a):
        import signal
        signal.alarm(0)
        signal.signal(signal.SIGALRM, self.old)
        return False


_STEPPERS: dict = {}


def _ls_call(obj, name, *args, **kw):
    """`self.<name>(...)` inside a stepped function: step the callee too when it is a
    plain method with source (so that its lines and its lock are scheduled), else call it."""
    func = None
    for klass in type(obj).__mro__:
        if name in klass.__dict__:
            func = klass.__dict__[name]
            break
    if inspect.isfunction(func) and name not in getattr(obj, "__dict__", {}):
        key = func.__code__
        if key not in _STEPPERS:
            try:
                _STEPPERS[key] = stepper(func, klass.__name__ if "__" in inspect.getsource(func) else None, True)
            except Exception:  # noqa
                _STEPPERS[key] = None
        st = _STEPPERS[key]
        if st is not None:
            return (yield from st(obj, *args, **kw))
    return getattr(obj, name)(*args, **kw)
    yield  # pragma: no cover  (makes this a generator)


def _ls_attr(obj, name):
    """`self.<name>` read inside a stepped function: when it is a property with source, its getter is stepped as well (its
    lines and its lock are scheduling points), else a plain attribute read."""
    prop = None
    for klass in type(obj).__mro__:
        if name in klass.__dict__:
            prop = klass.__dict__[name]
            break
    if isinstance(prop, property) and inspect.isfunction(prop.fget) and name not in getattr(obj, "__dict__", {}):
        key = prop.fget.__code__
        if key not in _STEPPERS:
            try:
                _STEPPERS[key] = stepper(prop.fget, klass.__name__ if "__" in inspect.getsource(prop.fget) else None, True)
            except Exception:  # noqa
                _STEPPERS[key] = None
        st = _STEPPERS[key]
        if st is not None:
            return (yield from st(obj))
    return getattr(obj, name)
    yield  # pragma: no cover  (makes this a generator)


class _CallInliner(ast.NodeTransformer):
    """self.m(...) -> (yield from _ls_call(self, 'm', ...)); self.x (read) -> (yield from _ls_attr(self, 'x')); does not enter
    nested scopes"""

    def visit_Lambda(self, node):
        return node

    visit_ListComp = visit_SetComp = visit_DictComp = visit_GeneratorExp = visit_Lambda
    visit_FunctionDef = visit_AsyncFunctionDef = visit_ClassDef = visit_Lambda

    def visit_Call(self, node):
        f = node.func
        if isinstance(f, ast.Attribute) and isinstance(f.value, ast.Name) and f.value.id == "self" \
                and not any(isinstance(a, ast.Starred) for a in node.args) and all(k.arg for k in node.keywords):
            node.args = [self.visit(a) for a in node.args]
            for k in node.keywords:
                k.value = self.visit(k.value)
            new = ast.YieldFrom(ast.Call(ast.Name("_ls_call", ast.Load()),
                                         [ast.Name("self", ast.Load()), ast.Constant(f.attr)] + node.args, node.keywords))
            return ast.copy_location(new, node)
        self.generic_visit(node)
        return node

    def visit_Attribute(self, node):
        if isinstance(node.ctx, ast.Load) and isinstance(node.value, ast.Name) and node.value.id == "self" \
                and not node.attr.startswith("__"):
            new = ast.YieldFrom(ast.Call(ast.Name("_ls_attr", ast.Load()), [ast.Name("self", ast.Load()), ast.Constant(node.attr)], []))
            return ast.copy_location(new, node)
        self.generic_visit(node)
        return node


class _Yielder(ast.NodeTransformer):
    def __init__(self, inline_calls=False, split_aug=False):
        self.n = 0
        self.inline_calls = inline_calls
        self.split_aug = split_aug

    def _block(self, stmts):
        out = []
        for s in stmts:
            s = self.visit(s)
            if isinstance(s, list):
                y = ast.Expr(ast.Yield(ast.Tuple([ast.Constant("line"), ast.Constant(getattr(s[0], "lineno", 0))], ast.Load())))
                out.append(ast.copy_location(y, s[0]))
                out.extend(s)
                continue
            if isinstance(s, ast.Expr) and isinstance(s.value, ast.Constant):
                out.append(s)                 # docstring: no line event
                continue
            y = ast.Expr(ast.Yield(ast.Tuple([ast.Constant("line"), ast.Constant(getattr(s, "lineno", 0))], ast.Load())))
            out.append(ast.copy_location(y, s))
            if self.split_aug and isinstance(s, ast.AugAssign) and isinstance(s.target, (ast.Attribute, ast.Name)) \
                    and any(isinstance(x, ast.Call) for x in ast.walk(s.value)):
                # `X += f(...)` is: load X, run f, add, store X -- a second scheduling point between the load and the call
                import copy
                load = copy.deepcopy(s.target)
                load.ctx = ast.Load()
                out.append(ast.copy_location(ast.Assign([ast.Name("_ls_aug", ast.Store())], load), s))
                y2 = ast.Expr(ast.Yield(ast.Tuple([ast.Constant("line"), ast.Constant(getattr(s, "lineno", 0))], ast.Load())))
                out.append(ast.copy_location(y2, s))
                out.append(ast.copy_location(ast.Assign([s.target], ast.BinOp(ast.Name("_ls_aug", ast.Load()), s.op, s.value)), s))
                continue
            if not self.inline_calls:
                pass
            elif isinstance(s, (ast.If, ast.While)):
                s.test = _CallInliner().visit(s.test)
            elif isinstance(s, ast.For):
                s.iter = _CallInliner().visit(s.iter)
            elif not isinstance(s, (ast.Try, ast.With, ast.FunctionDef, ast.ClassDef)):
                s = _CallInliner().visit(s)
            out.append(s)
        return out

    def visit_FunctionDef(self, node):
        if self.n:
            return node                      # nested functions are left alone
        self.n += 1
        node.body = self._block(node.body)
        node.decorator_list = []
        return node

    def visit_If(self, node):
        node.body = self._block(node.body)
        node.orelse = self._block(node.orelse)
        return node

    def visit_For(self, node):
        node.body = self._block(node.body)
        node.orelse = self._block(node.orelse)
        return node

    visit_While = visit_For

    def visit_Try(self, node):
        node.body = self._block(node.body)
        for h in node.handlers:
            h.body = self._block(h.body)
        node.orelse = self._block(node.orelse)
        node.finalbody = self._block(node.finalbody)
        return node

    def visit_With(self, node):
        # with <expr>:  ->  cooperative acquire, body, release  (only for a single lock-like item without `as`)
        ce = node.items[0].context_expr if node.items else None
        if len(node.items) != 1 or node.items[0].optional_vars is not None or \
                not (isinstance(ce, ast.Attribute) and "lock" in ce.attr):
            node.body = self._block(node.body)
            return node
        self.n += 1
        name = f"_lk{self.n}"
        assign = ast.Assign([ast.Name(name, ast.Store())], node.items[0].context_expr)
        acquire = ast.While(
            ast.UnaryOp(ast.Not(), ast.Call(ast.Attribute(ast.Name(name, ast.Load()), "acquire", ast.Load()), [ast.Constant(False)], [])),
            [ast.Expr(ast.Yield(ast.Tuple([ast.Constant("blocked"), ast.Name(name, ast.Load())], ast.Load())))], [])
        release = ast.Expr(ast.Call(ast.Attribute(ast.Name(name, ast.Load()), "release", ast.Load()), [], []))
        body = ast.Try(self._block(node.body), [], [], [release])
        out = [assign, acquire, body]
        for x in out:
            ast.copy_location(x, node)
        return out


def stepper(func, cls_name: str | None = None, inline_calls: bool = False, split_aug: bool = False):
    """generator version of `func` (same globals), yielding before each statement;
    `cls_name`: compile inside a class of that name so that `self.__x` is mangled as in the original"""
    f = getattr(func, "__func__", func)
    src = textwrap.dedent(inspect.getsource(f))
    tree = ast.parse(src)
    fn = tree.body[0]
    assert isinstance(fn, ast.FunctionDef)
    _Yielder(inline_calls, split_aug).visit(fn)
    if cls_name:
        tree.body = [ast.ClassDef(cls_name, [], [], [fn], [])]
    ast.fix_missing_locations(tree)
    ns: dict = {}
    f.__globals__.setdefault("_ls_call", _ls_call)
    f.__globals__.setdefault("_ls_attr", _ls_attr)
    exec(compile(tree, f"<stepper {f.__qualname__}>", "exec"), f.__globals__, ns)
    return ns[cls_name].__dict__[fn.name] if cls_name else ns[fn.name]


class Thread:
    def __init__(self, calls):
        self.calls = list(calls)          # thunks returning generators
        self.gen = None
        self.results = []
        self.blocked_on = None
        self.done = False
        self._advance_call()

    def _advance_call(self):
        # enter the next call and stop before its first line (as a thread stops at its first line event)
        while self.calls:
            self.gen = self.calls.pop(0)()
            try:
                next(self.gen)
                return
            except StopIteration as e:        # a function without statements
                self.results.append(e.value)
            except Exception as e:  # noqa      (the call raised: that is its result)
                self.results.append(e)
        self.gen = None
        self.done = True

    def enabled(self):
        if self.done:
            return False
        if self.blocked_on is not None:
            return not self.blocked_on.locked()
        return True

    def step(self):
        self.blocked_on = None
        try:
            y = next(self.gen)
            if y[0] == "blocked":
                self.blocked_on = y[1]
        except StopIteration as e:
            self.results.append(e.value)
            self._advance_call()
        except StepHang:
            raise
        except Exception as e:  # noqa          (the call raised: that is its result)
            self.results.append(e)
            self._advance_call()


def execute(make, choices, max_steps=2000):
    """make() -> list[Thread]; follows `choices`, then: stay on the current thread
    while enabled, else the lowest enabled.  Returns (threads, trace) with
    trace[i] = (chosen, enabled_tuple, current_before)."""
    threads = make()
    trace = []
    cur = None
    for i in range(max_steps):
        en = tuple(k for k, t in enumerate(threads) if t.enabled())
        if not en:
            break
        if i < len(choices) and choices[i] in en:
            c = choices[i]
        elif cur in en:
            c = cur
        else:
            c = en[0]
        trace.append((c, en, cur))
        threads[c].step()
        cur = c
    return threads, trace


def preemptions(trace_prefix):
    return sum(1 for c, en, cur in trace_prefix if cur is not None and cur in en and c != cur)


def explore(make, bound, on_run, max_runs=200000):
    """All schedules with at most `bound` preemptions.  on_run(threads, trace) ->
    truthy to stop.  Returns (#runs, result of on_run that stopped or None)."""
    work = [[]]
    runs = 0
    while work and runs < max_runs:
        prefix = work.pop()
        threads, trace = execute(make, prefix)
        runs += 1
        r = on_run(threads, trace)
        if r:
            return runs, r
        for i in range(len(prefix), len(trace)):
            c, en, cur = trace[i]
            for a in en:
                if a == c:
                    continue
                cand = [x[0] for x in trace[:i]] + [a]
                pre = preemptions(trace[:i]) + (1 if cur is not None and cur in en and a != cur else 0)
                if pre <= bound:
                    work.append(cand)
    return runs, None


# ------------------------------------------------------------- real threads
def run_threads(funcs_per_thread, schedule, code_objects, timeout=2.0):
    """Replay on unmodified functions: funcs_per_thread[k] is a list of thunks
    run by thread k; a thread pauses before every line of the given code
    objects and continues when the schedule names it.  Returns results per thread."""
    n = len(funcs_per_thread)
    go = [threading.Semaphore(0) for _ in range(n)]
    arrived = threading.Semaphore(0)
    results = [[] for _ in range(n)]
    finished = [False] * n
    codes = set(code_objects)

    def tracer_for(k):
        def local(frame, event, arg):
            if event == "line":
                arrived.release()
                go[k].acquire()
            return local

        def glob(frame, event, arg):
            if event == "call" and frame.f_code in codes:
                return local
            return None
        return glob

    def body(k):
        sys.settrace(tracer_for(k))
        try:
            for f in funcs_per_thread[k]:
                results[k].append(f())
        finally:
            sys.settrace(None)
            finished[k] = True
            arrived.release()

    ths = [threading.Thread(target=body, args=(k,), daemon=True) for k in range(n)]
    for t in ths:
        t.start()
    for _ in range(n):                   # every thread reaches its first line (or finishes)
        arrived.acquire(timeout=timeout)
    for k in schedule:
        if finished[k]:
            continue
        go[k].release()
        arrived.acquire(timeout=timeout)
    # let everything run out in thread order
    for _ in range(10000):
        if all(finished):
            break
        for k in range(n):
            if not finished[k]:
                go[k].release()
                arrived.acquire(timeout=timeout)
    return results
