"""Two reader threads of two connections inside the node at the same time (part of C07, run in a fresh interpreter).

Every `PeerConnection` has its own reader thread, which calls `Node._receive_message` for each message it has framed; a
node with two peers runs that method -- and everything below it: validation, dispatch to the application, `send_message`,
`_record_answer`, the bookkeeping tables shared by all connections -- on two threads at once.  What either peer gets back
must not depend on the other reader being somewhere inside the node at the same moment.

The real node is brought into a state by the scenario language of sim.py (virtual sockets, inert worker threads); then
two *real* threads deliver one message each, on two connections, to the connection's message handler.  Every line of
every function of node/node.py, node/peer.py and node/application.py is a scheduling point (sys.settrace); schedules:
"thread 0 runs k lines, thread 1 runs its whole delivery, thread 0 finishes", for sampled k, in both assignments.
Afterwards the node's output is flushed.  Judged: what was transmitted per connection equals what is transmitted when
the two deliveries happen one after the other (in either order), return values included.  A second kind of pair has an
*application* thread as thread 1: it submits the answer to a request of connection 0 while that connection's reader
handles the peer's DPR / DWR.

Prints one JSON document: {"schedules": n, "fails": [...]}.
"""
from __future__ import annotations

import json
import os
import sys

sys.path.insert(0, os.environ.get("DV_REPO_SRC", "/repo/src"))
sys.path.insert(0, os.path.dirname(os.path.abspath(__file__)))

import linesched  # noqa: E402
import nodegen  # noqa: E402
from valrace import code_objects  # noqa: E402

CFG = ("NODE host=node.local;realm=realm.local;idle=30;cea=4;dwa=4;"
       "peer:peer1.x,realm.local,0,0,30,1,0,-,-,-,-;peer:peer2.x,realm.local,0,0,30,1,0,-,-,-,-;"
       "app:4,1,0,b,0,0+1,-")


def main():
    import sim as simmod
    from diameter.message import Message
    import diameter.node.node as node_mod
    import diameter.node.peer as peer_mod
    import diameter.node.application as app_mod
    codes = code_objects(node_mod) + code_objects(peer_mod) + code_objects(app_mod)
    cs = set(codes)
    step = int(os.environ.get("DV_RACE_STEP", "3"))

    hs = (" | start | acc | rx 0 " + nodegen.cer("peer1.x", "4", 11, 12) + " | acc | rx 1 " + nodegen.cer("peer2.x", "4", 13, 14))
    # requests of both peers still waiting for their answers (the application has not answered them yet)
    pending = (" | outcome 0 none | rx 0 " + nodegen.ccr(21, 22, "peer1.x") + " | rx 1 " + nodegen.ccr(23, 24, "peer2.x") +
               " | rx 0 " + nodegen.ccr(25, 26, "peer1.x") + " | outcome 0 answer")
    prefixes = {"idle": CFG + hs, "pending": CFG + hs + pending}
    pairs = [("DWR/CCR", nodegen.dwr(31, 32, "peer1.x"), nodegen.ccr(33, 34, "peer2.x")),
             ("CCR/CCR", nodegen.ccr(35, 36, "peer1.x"), nodegen.ccr(37, 38, "peer2.x")),
             ("DWR/DWR", nodegen.dwr(39, 40, "peer1.x"), nodegen.dwr(41, 42, "peer2.x")),
             # the connection's reader handling the peer's DPR (DWR) while an application thread submits the answer to a
             # request of that very connection ("pending" state only: request 0 of application 0 came from connection 0)
             ("DPR/answer", nodegen.dpr(43, 44, "peer1.x"), ("ans", 0, 0, 2001)),
             ("DWR/answer", nodegen.dwr(45, 46, "peer1.x"), ("ans", 0, 0, 2001))]

    def setup(prefix):
        parts = [p.strip() for p in prefix.split("|")]
        s = simmod.Sim(parts[0][5:].strip())
        for ev in parts[1:]:
            if ev:
                s.event(ev)
        return s

    def deliver(s, k, desc):
        if isinstance(desc, tuple) and desc[0] == "ans":
            # an application thread submitting its answer to the idx-th request it was handed
            _, ai, idx, rc = desc
            a = s.apps[ai]
            req = [m for i, m in s.app_requests if i == ai][idx]

            def go_ans():
                try:
                    a.send_answer(a.generate_answer(req, result_code=rc))
                    return "ok"
                except Exception as e:  # noqa
                    return f"raised {type(e).__name__}"
            return go_ans
        c = s.conns[k]
        m = Message.from_bytes(simmod.build_msg(desc))

        def go():
            try:
                c.message_handler(c, m)
                return "ok"
            except Exception as e:  # noqa
                return f"raised {type(e).__name__}"
        return go

    def outcome(s, mark, unordered=False):
        s.settle()
        per = {}
        for l in s.obs[mark:]:
            if l.startswith("OUT "):
                per.setdefault(l.split(" ")[1], []).append(l)      # (per connection in wire order)
        # (an application thread racing with the reader of the same connection: which of the two reaches the write queue first
        # is the schedule's choice also on the unchanged tree -- look-up and queueing of an answer are separate steps -- so the
        # order on the wire is not judged there, only what is transmitted)
        outs = sorted((c, sorted(v) if unordered else v) for c, v in per.items())
        crashes = sorted(l for l in s.obs[mark:] if l.startswith("CRASH") or l.startswith("RAISE"))
        return outs, crashes

    fails, total = [], 0
    for pname, prefix in prefixes.items():
        for label, da, db in pairs:
            if isinstance(db, tuple) and pname != "pending":
                continue
            # the two sequential outcomes
            seq = []
            for order in ((0, 1), (1, 0)):
                s = setup(prefix)
                mark = len(s.obs)
                gos = [deliver(s, 0, da), deliver(s, 1, db)]
                rets = [None, None]
                for i in order:
                    rets[i] = gos[i]()
                seq.append((rets, outcome(s, mark, isinstance(db, tuple))))
                s.close()
            allowed = [(x[0], x[1]) for x in seq]
            # length of each delivery in lines
            nlines = []
            for k, d in ((0, da), (1, db)):
                s = setup(prefix)
                count = [0]

                def tracer(frame, event, arg):
                    if event == "call" and frame.f_code in cs:
                        def local(fr, ev, ar):
                            if ev == "line":
                                count[0] += 1
                            return local
                        return local
                    return None
                g = deliver(s, k, d)
                sys.settrace(tracer)
                try:
                    g()
                finally:
                    sys.settrace(None)
                nlines.append(count[0])
                s.close()
            for first in (0, 1):
                n = nlines[first]
                ks = sorted(set(list(range(0, n, step)) + [n]))
                for k in ks:
                    s = setup(prefix)
                    mark = len(s.obs)
                    gos = [deliver(s, 0, da), deliver(s, 1, db)]
                    second = 1 - first
                    res = linesched.run_threads([[gos[0]], [gos[1]]], [first] * k + [second] * 100000, codes, timeout=0.2)
                    total += 1
                    rets = [r[0] if r else None for r in res]
                    got = outcome(s, mark, isinstance(db, tuple))
                    s.close()
                    if (rets, got) not in allowed:
                        fails.append({"what": "two connections' reader threads inside the node at the same time: what the peers get "
                                              "back differs from what they get when the two messages are handled one after the other "
                                              "(an answer missing, sent twice, or a delivery raising)", "kind": "race",
                                      "line": f"{prefix} || thread 0 (reader of conn 0): {da} || thread 1 (reader of conn 1 / application): {db}",
                                      "schedule": f"{label} ({pname}): thread {first} preempted after {k} of {n} lines, the other runs "
                                                  "through, then it finishes",
                                      "real": str((rets, got))[:900], "expected": str(allowed)[:900]})
                        break
                if fails:
                    break
            if fails:
                break
        if fails:
            break
    print(json.dumps({"schedules": total, "fails": fails}))
    sys.stdout.flush()
    os._exit(0)


if __name__ == "__main__":
    main()
